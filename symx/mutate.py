"""In-memory source mutation of imported pyerrors functions (canary mutants). /repo is never touched."""
import inspect
import textwrap
import importlib


class Skipped(Exception):
    pass


def mutate(modname, qualname, old, new, count=1):
    """Re-compile `qualname` of module `modname` with `old` replaced by `new`; returns an undo callable.
    Raises Skipped if the pattern is not present in the current source (source has changed)."""
    mod = importlib.import_module(modname)
    parts = qualname.split('.')
    owner = mod
    for p in parts[:-1]:
        owner = getattr(owner, p)
    orig = owner.__dict__[parts[-1]] if isinstance(owner, type) else getattr(owner, parts[-1])
    fn = orig
    if isinstance(fn, (staticmethod, classmethod)):
        fn = fn.__func__
    src = textwrap.dedent(inspect.getsource(fn))
    if old not in src:
        raise Skipped('pattern %r not found in %s.%s' % (old, modname, qualname))
    src2 = src.replace(old, new, count)
    ns = {}
    glb = fn.__globals__
    fname = '<canary %s.%s>' % (modname, qualname)
    import linecache
    linecache.cache[fname] = (len(src2), None, src2.splitlines(True), fname)
    code = compile(src2, fname, 'exec')
    exec(code, glb, ns)
    newfn = ns[parts[-1]]
    if isinstance(orig, staticmethod):
        newfn = staticmethod(newfn)
    setattr(owner, parts[-1], newfn)
    # aliases at module level (e.g. Obs.gm = gamma_method, pyerrors.derived_observable)
    aliases = []
    import sys
    for m in list(sys.modules.values()):
        if m is None or not getattr(m, '__name__', '').startswith('pyerrors'):
            continue
        for k, v in list(vars(m).items()):
            if v is orig and not (m is owner and k == parts[-1]):
                aliases.append((m, k))
                setattr(m, k, newfn)
    if isinstance(owner, type):
        for k, v in list(vars(owner).items()):
            if v is orig and k != parts[-1]:
                aliases.append((owner, k))
                setattr(owner, k, newfn)

    def undo():
        setattr(owner, parts[-1], orig)
        for m, k in aliases:
            setattr(m, k, orig)
    return undo
