"""Shared harness helpers: symbolic environment, observable construction, specification objects
(written on the raw samples, independently of pyerrors.derived_observable), oracles."""
import types

import numpy as np

from . import core, dual
from .core import Ctx, SV, SInt, SB
from .npshim import NPShim


# --------------------------------------------------------------------------------------
# environment

def sym_env(cx, *modnames, autograd=True, calc_gamma_direct=True):
    """Install the numpy shim (and the autograd/numdifftools contract stubs) in the namespaces of the
    given pyerrors modules. No-op in concrete replay mode: the replay runs the unstubbed code."""
    import importlib
    if cx.mode != 'sym':
        return
    shim = NPShim()
    for mn in modnames:
        mod = importlib.import_module(mn)
        if 'np' in vars(mod):
            cx.patch(mod, 'np', shim)
        if autograd:
            if 'jacobian' in vars(mod):
                cx.patch(mod, 'jacobian', dual.jacobian)
            if 'auto_jacobian' in vars(mod):
                cx.patch(mod, 'auto_jacobian', dual.jacobian)
            if 'hessian' in vars(mod):
                cx.patch(mod, 'hessian', dual.hessian)
            if 'auto_hessian' in vars(mod):
                cx.patch(mod, 'auto_hessian', dual.hessian)
            if 'egrad' in vars(mod):
                cx.patch(mod, 'egrad', dual.egrad)
            if 'nd' in vars(mod):
                cx.patch(mod, 'nd', types.SimpleNamespace(Gradient=dual.NDGradient, Jacobian=dual.NDGradient))
            if 'num_jacobian' in vars(mod):
                cx.patch(mod, 'num_jacobian', lambda f, **kw: dual.jacobian(f))
            if 'num_hessian' in vars(mod):
                cx.patch(mod, 'num_hessian', lambda f, **kw: dual.hessian(f))
    if calc_gamma_direct:
        import pyerrors.obs as O
        real_cg = O.Obs._calc_gamma

        def cg(self, deltas, idx, shape, w_max, fft, gapsize):
            # symbolic data cannot pass numpy's FFT: force the direct summation (padding lemma, C02)
            if isinstance(deltas, np.ndarray) and deltas.dtype == object:
                fft = False
            return real_cg(self, deltas, idx, shape, w_max, fft, gapsize)
        cx.patch(O.Obs, '_calc_gamma', cg)


# --------------------------------------------------------------------------------------
# specification objects

def is_range_like(lst):
    """equally spaced (>= 2 entries with constant positive step, or a single entry)"""
    if len(lst) <= 1:
        return True
    d = lst[1] - lst[0]
    return all(lst[i + 1] - lst[i] == d for i in range(len(lst) - 1))


class Spec:
    """What an observable *is*, in terms of plain dictionaries over configuration numbers."""

    def __init__(self):
        self.idl = {}       # name -> sorted list of configuration numbers
        self.deltas = {}    # name -> {cfg: fluctuation}
        self.r_values = {}  # name -> replica mean
        self.value = 0
        self.grads = {}     # covname -> list of gradient entries
        self.covs = {}      # covname -> matrix (concrete or symbolic entries)
        self.reweighted = False

    @property
    def names(self):
        return sorted(list(self.idl) + list(self.grads))

    @property
    def N(self):
        return sum(len(v) for v in self.idl.values())


def primary_spec(samples):
    """samples: name -> {cfg: value}. Fluctuations are taken relative to the replica mean,
    the central value is the mean over all samples."""
    s = Spec()
    tot = 0
    n = 0
    for name, d in samples.items():
        cfgs = sorted(d)
        s.idl[name] = cfgs
        m = sum(d[c] for c in cfgs) / len(cfgs)
        s.r_values[name] = m
        s.deltas[name] = {c: d[c] - m for c in cfgs}
        tot = tot + sum(d[c] for c in cfgs)
        n += len(cfgs)
    s.value = tot / n
    return s


def cov_spec(value, cov, name, grad):
    s = Spec()
    s.value = value
    s.grads[name] = list(grad)
    s.covs[name] = cov
    return s


def const_spec(v):
    s = Spec()
    s.value = v
    return s


def ens_of(name):
    return name.split('|')[0]


def derived_spec(f, ops):
    """Linear error propagation as stated in C01, on Spec operands. f takes a list of numbers."""
    res = Spec()
    vals = [o.value for o in ops]
    res.value = f(vals)
    dfs = dual.partials(f, vals)
    mc_names = sorted(set(n for o in ops for n in o.idl))
    for name in mc_names:
        res.idl[name] = sorted(set(c for o in ops if name in o.idl for c in o.idl[name]))
    for name in mc_names:
        res.r_values[name] = f([o.r_values.get(name, o.value) for o in ops])
        acc = {c: 0 for c in res.idl[name]}
        e = ens_of(name)
        ens_reps = [n for n in mc_names if ens_of(n) == e]
        ens_size = sum(len(res.idl[n]) for n in ens_reps)
        for o, df in zip(ops, dfs):
            if name not in o.idl:
                continue
            own_reps = [n for n in o.idl if ens_of(n) == e]
            w = core.Fraction(len(res.idl[name]), len(o.idl[name]))
            if len(own_reps) < len(ens_reps):
                w = w * core.Fraction(ens_size, sum(len(res.idl[n]) for n in own_reps))
            for c in o.idl[name]:
                acc[c] = acc[c] + df * o.deltas[name][c] * w
        res.deltas[name] = acc
    for cn in sorted(set(n for o in ops for n in o.grads)):
        L = max(len(o.grads[cn]) for o in ops if cn in o.grads)
        g = [0] * L
        for o, df in zip(ops, dfs):
            if cn in o.grads:
                for k in range(L):
                    g[k] = g[k] + df * o.grads[cn][k]
                res.covs[cn] = o.covs[cn]
        res.grads[cn] = g
    res.reweighted = any(o.reweighted for o in ops)
    return res


# --------------------------------------------------------------------------------------
# building real observables from symbolic samples

def mk_samples(cx, prefix, layout):
    """layout: name -> list of configuration numbers; returns name -> {cfg: symbol}"""
    out = {}
    for name, cfgs in layout.items():
        tag = name.replace('|', '_')
        out[name] = {c: cx.real('%s_%s_%d' % (prefix, tag, c)) for c in cfgs}
    return out


def mk_obs(cx, prefix, layout, use_range=None):
    """real pyerrors Obs on symbolic samples + its specification.
    Several ensembles cannot be passed to the constructor in one call; such operands are assembled the way
    the library assembles derived results (fluctuations + replica means, `means=`), with a free central value."""
    import pyerrors as pe
    smp = mk_samples(cx, prefix, layout)
    names = list(layout)
    arrs = []
    idl = []
    for n in names:
        cfgs = list(layout[n])
        arrs.append(np.array([smp[n][c] for c in cfgs], dtype=object if cx.mode == 'sym' else float))
        idl.append(cfgs)
    spec = primary_spec(smp)
    if len(set(ens_of(n) for n in names)) > 1:
        means = [spec.r_values[n] for n in names]
        o = pe.Obs([a - m for a, m in zip(arrs, means)], names, idl=idl, means=means)
        o._value = cx.real(prefix + '_value')
        spec.value = o._value
        return o, spec
    o = pe.Obs(arrs, names, idl=idl)
    return o, spec


def mk_covobs(cx, prefix, name, dim, pos=0, cov=None, mean=None):
    """Obs that depends on an external covariance input only; gradient symbolic"""
    import pyerrors as pe
    if cov is None:
        cov = np.diag([0.25 * (i + 1) for i in range(dim)])
        for i in range(dim - 1):
            cov[i, i + 1] = cov[i + 1, i] = 0.03125
    mean = cx.real('%s_mean' % prefix) if mean is None else mean      # a concrete (e.g. integer-typed) central value on request
    grad = [cx.real('%s_g%d' % (prefix, k)) for k in range(dim)]
    from pyerrors.covobs import Covobs
    co = Covobs(mean, cov if dim > 1 else float(cov[0, 0]), name, grad=grad)
    o = pe.Obs([], [], means=[])
    o._value = mean
    o.names.append(name)
    o._covobs[name] = co
    return o, cov_spec(mean, co.cov, name, grad)


# --------------------------------------------------------------------------------------
# oracles

def check_wellformed(cx, o, label):
    """structural invariant of C04 on a real Obs (concrete structure; values may be symbolic)"""
    import pyerrors as pe
    ok = True
    ok &= cx.expect(isinstance(o, pe.Obs), label + ':type', type(o).__name__)
    if not isinstance(o, pe.Obs):
        return False
    v = o.value
    ok &= cx.expect(isinstance(v, (SV, float, int, np.floating, np.integer)) and not isinstance(v, (complex, np.complexfloating)) and not isinstance(v, bool),
                    label + ':value-real', 'value of type %s' % type(v).__name__)
    cov = set(o.covobs.keys())
    mc = [n for n in o.names if n not in cov]
    # "sorted unique chain names": the Monte-Carlo chain names; covariance-input names are appended by the library
    ok &= cx.expect(len(o.names) == len(set(o.names)) and mc == sorted(mc) and all(isinstance(n, str) for n in o.names),
                    label + ':names-sorted-unique', str(o.names))
    # every Monte-Carlo chain has its configuration list, fluctuations, length and mean; entries beyond the chains may only belong to covariance inputs
    ok &= cx.expect(cov <= set(o.names) and all(set(mc) <= set(d.keys()) and set(d.keys()) - set(mc) <= cov for d in (o.idl, o.shape)) and
                    set(mc) == set(o.deltas.keys()) == set(o.r_values.keys()),
                    label + ':name-sets', '%s %s %s' % (o.names, list(o.idl), list(cov)))
    tot = 0
    for n in mc:
        idl = o.idl.get(n)
        if idl is None:
            continue
        lst = list(idl)
        good = all(isinstance(i, (int, np.integer)) for i in lst) and all(lst[i] < lst[i + 1] for i in range(len(lst) - 1))
        ok &= cx.expect(good, label + ':idl-increasing', '%s %s' % (n, lst))
        ok &= cx.expect(isinstance(idl, range) == (is_range_like(lst) and len(lst) > 1) or (len(lst) == 1), label + ':range-iff-equally-spaced', '%s %r' % (n, idl))
        ok &= cx.expect(len(lst) == len(o.deltas[n]) == o.shape[n], label + ':lengths', '%s: %d %d %d' % (n, len(lst), len(o.deltas[n]), o.shape[n]))
        tot += len(lst)
    ok &= cx.expect(o.N == tot, label + ':N', '%s vs %s' % (o.N, tot))
    for cn in cov:
        ok &= cx.expect('|' not in cn, label + ':covname', cn)
    return ok


def compare(cx, o, s, label, wellformed=True, check_r=True):
    """real Obs `o` equals specification `s`: structure concretely, numbers by the solver"""
    if wellformed and not check_wellformed(cx, o, label):
        return False
    mc = sorted(s.idl)
    cov = sorted(s.grads)
    if not cx.expect(sorted(o.names) == sorted(mc + cov), label + ':names', '%s vs %s' % (o.names, mc + cov)):
        return False
    ok = True
    for n in mc:
        if not cx.expect(list(o.idl[n]) == list(s.idl[n]), label + ':idl[%s]' % n, '%s vs %s' % (list(o.idl[n]), s.idl[n])):
            return False
    ok &= cx.prove_eq(o.value, s.value, label + ':value')
    for n in mc:
        if check_r:
            ok &= cx.prove_eq(o.r_values[n], s.r_values[n], label + ':r_value[%s]' % n)
        for k, c in enumerate(s.idl[n]):
            ok &= cx.prove_eq(o.deltas[n][k], s.deltas[n][c], label + ':delta[%s][%d]' % (n, c))
    for cn in cov:
        g = np.asarray(o.covobs[cn].grad, dtype=object).ravel()
        if not cx.expect(len(g) == len(s.grads[cn]), label + ':gradlen[%s]' % cn):
            return False
        for k in range(len(g)):
            ok &= cx.prove_eq(g[k], s.grads[cn][k], label + ':grad[%s][%d]' % (cn, k))
    ok &= cx.expect(bool(o.reweighted) == bool(s.reweighted), label + ':reweighted', '%s vs %s' % (o.reweighted, s.reweighted))
    return ok


def spec_of_obs(o):
    """Spec view of a real Obs (for oracles that compare two real observables modulo embedding)"""
    s = Spec()
    cov = set(o.covobs.keys())
    for n in o.names:
        if n in cov:
            s.grads[n] = list(np.asarray(o.covobs[n].grad, dtype=object).ravel())
            s.covs[n] = o.covobs[n].cov
        else:
            lst = list(o.idl[n])
            s.idl[n] = lst
            s.deltas[n] = {c: o.deltas[n][k] for k, c in enumerate(lst)}
            s.r_values[n] = o.r_values[n]
    s.value = o.value
    s.reweighted = o.reweighted
    return s


def embed(s, idl, ens_layout):
    """expand Spec s to the support idl (name -> list) with the C01 convention:
    absent chain = zero fluctuations; smaller support = zero padded and up-weighted"""
    out = {}
    for name, cfgs in idl.items():
        e = ens_of(name)
        if name not in s.idl:
            out[name] = {c: 0 for c in cfgs}
            continue
        ens_reps = [n for n in idl if ens_of(n) == e]
        own_reps = [n for n in s.idl if ens_of(n) == e]
        w = core.Fraction(len(cfgs), len(s.idl[name]))
        if len(own_reps) < len(ens_reps):
            w = w * core.Fraction(sum(len(idl[n]) for n in ens_reps), sum(len(idl[n]) for n in own_reps))
        out[name] = {c: (s.deltas[name][c] * w if c in s.deltas[name] else 0) for c in cfgs}
    return out


def obs_equiv(cx, a, b, label):
    """identity between observables modulo the library's embedding (DESIGN 3.8)"""
    sa = spec_of_obs(a) if not isinstance(a, Spec) else a
    sb = spec_of_obs(b) if not isinstance(b, Spec) else b
    ok = cx.prove_eq(sa.value, sb.value, label + ':value')
    idl = {}
    for s in (sa, sb):
        for n, l in s.idl.items():
            idl[n] = sorted(set(idl.get(n, [])) | set(l))
    ea, eb = embed(sa, idl, None), embed(sb, idl, None)
    for n in sorted(idl):
        for c in idl[n]:
            ok &= cx.prove_eq(ea[n][c], eb[n][c], label + ':delta[%s][%d]' % (n, c))
    for cn in sorted(set(sa.grads) | set(sb.grads)):
        ga, gb = sa.grads.get(cn), sb.grads.get(cn)
        C = sa.covs.get(cn) if cn in sa.covs else sb.covs.get(cn)
        if C is not None and not np.any(np.asarray(C, dtype=float)):
            continue    # an external input with zero covariance (the library's placeholder for plain numbers) carries no fluctuation
        L = len(ga if ga is not None else gb)
        for k in range(L):
            ok &= cx.prove_eq(ga[k] if ga is not None else 0, gb[k] if gb is not None else 0, label + ':grad[%s][%d]' % (cn, k))
    return ok


def eq_obs(cx, a, b, label):
    """two library objects (Obs / CObs / number / ndarray of them) are the same object-value:
    same type, same chains and configuration lists, equal value / fluctuations / gradients (solver)"""
    import pyerrors as pe
    if isinstance(a, np.ndarray) or isinstance(b, np.ndarray):
        aa, bb = np.asarray(a, dtype=object), np.asarray(b, dtype=object)
        if not cx.expect(aa.shape == bb.shape, label + ':shape', '%s vs %s' % (aa.shape, bb.shape)):
            return False
        ok = True
        for idx in np.ndindex(aa.shape):
            ok &= eq_obs(cx, aa[idx], bb[idx], '%s%s' % (label, list(idx)))
        return ok
    if isinstance(a, pe.CObs) or isinstance(b, pe.CObs):
        if not cx.expect(isinstance(a, pe.CObs) and isinstance(b, pe.CObs), label + ':type', '%s vs %s' % (type(a).__name__, type(b).__name__)):
            return False
        return eq_obs(cx, a.real, b.real, label + ':re') & eq_obs(cx, a.imag, b.imag, label + ':im')
    if isinstance(a, pe.Obs) or isinstance(b, pe.Obs):
        if not cx.expect(isinstance(a, pe.Obs) and isinstance(b, pe.Obs), label + ':type', '%s vs %s' % (type(a).__name__, type(b).__name__)):
            return False
        if not cx.expect(sorted(a.names) == sorted(b.names), label + ':names', '%s vs %s' % (a.names, b.names)):
            return False
        ok = cx.prove_eq(a.value, b.value, label + ':value')
        for n in a.names:
            if n in a.covobs:
                ok &= cx.prove_eq(list(np.asarray(a.covobs[n].grad, dtype=object).ravel()), list(np.asarray(b.covobs[n].grad, dtype=object).ravel()), label + ':grad[%s]' % n)
                continue
            if not cx.expect(list(a.idl[n]) == list(b.idl[n]), label + ':idl[%s]' % n):
                return False
            ok &= cx.prove_eq(list(a.deltas[n]), list(b.deltas[n]), label + ':deltas[%s]' % n)
            ok &= cx.prove_eq(a.r_values[n], b.r_values[n], label + ':r_value[%s]' % n)
        ok &= cx.expect(bool(a.reweighted) == bool(b.reweighted), label + ':reweighted')
        return ok
    if a is None or b is None:
        return cx.expect(a is None and b is None, label + ':none', '%r vs %r' % (a, b))
    return cx.prove_eq(a, b, label)
