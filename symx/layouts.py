"""Bounded families of ensemble / replica / configuration-list layouts (DESIGN 3.7).
A layout is a dict  name -> sorted list of configuration numbers  (>= 5 entries per chain)."""
import itertools
import random


def classify(lst):
    d = [b - a for a, b in zip(lst, lst[1:])]
    if all(x == 1 for x in d):
        return 'contiguous'
    if len(set(d)) == 1:
        return 'strided'
    g = min(d)
    if all(x % g == 0 for x in d) and g > 1:
        return 'gapped-strided'
    return 'irregular'


def subsets(universe, minlen=5):
    u = list(universe)
    out = []
    for r in range(minlen, len(u) + 1):
        out.extend([list(c) for c in itertools.combinations(u, r)])
    return out


# single-chain operand pairs: (A, B) covering identical / nested / partly overlapping / disjoint x range / list
PAIRS_CORE = [
    ([1, 2, 3, 4, 5, 6], [1, 2, 3, 4, 5, 6]),                # identical ranges
    ([1, 2, 3, 5, 6], [1, 2, 3, 5, 6]),                      # identical irregular lists
    ([1, 2, 3, 4, 5, 6], [2, 3, 4, 5, 6, 8]),                # partly overlapping, union irregular
    ([1, 3, 5, 7, 9], [1, 2, 3, 4, 5, 6, 7, 8, 9]),          # strided nested in contiguous
    ([2, 4, 6, 8, 10], [1, 3, 5, 7, 9]),                     # disjoint, union becomes a range
    ([1, 2, 3, 4, 5], [6, 7, 8, 9, 10]),                     # disjoint contiguous, union a range
    ([1, 2, 4, 5, 7], [2, 4, 6, 8, 10]),                     # irregular + strided, partly overlapping
    ([3, 6, 9, 12, 15], [3, 6, 9, 12, 15, 18]),              # strided nested, union strided range
    ([1, 2, 3, 4, 6], [1, 2, 3, 4, 5, 6]),                   # irregular nested in range
    ([1, 3, 4, 5, 7], [2, 3, 5, 6, 8]),                      # two irregular, partly overlapping
    ([1, 2, 3, 4, 5], [8, 9, 10, 11, 12]),                   # disjoint contiguous ranges with a gap: union is not a range
    ([1, 3, 5, 7, 9], [15, 17, 19, 21, 23]),                 # disjoint strided ranges on the same grid with a gap
    ([2, 4, 6, 8, 10], [13, 15, 17, 19, 21]),                # disjoint strided ranges on different grids
]

# multi-chain operand pairs (layout dicts)
MULTI_CORE = [
    # same replica sets, same configs
    ({'e|r1': [1, 2, 3, 4, 5], 'e|r2': [1, 2, 3, 4, 5, 6]}, {'e|r1': [1, 2, 3, 4, 5], 'e|r2': [1, 2, 3, 4, 5, 6]}),
    # operand A lacks a replica
    ({'e|r1': [1, 2, 3, 4, 5]}, {'e|r1': [1, 2, 3, 4, 5], 'e|r2': [1, 2, 3, 4, 5, 6]}),
    # A lacks a replica AND has fewer configs on the one it has
    ({'e|r1': [1, 2, 3, 5, 6]}, {'e|r1': [1, 2, 3, 4, 5, 6], 'e|r2': [2, 4, 6, 8, 10]}),
    # disjoint replica sets of one ensemble
    ({'e|r1': [1, 2, 3, 4, 5]}, {'e|r2': [1, 2, 3, 4, 5, 6]}),
    # different ensembles
    ({'e|r1': [1, 2, 3, 4, 5]}, {'f|r1': [2, 4, 6, 8, 10, 12]}),
    # two ensembles vs one, partly overlapping configs
    ({'e|r1': [1, 2, 3, 4, 5], 'f|r1': [1, 2, 3, 4, 5, 6]}, {'f|r1': [2, 3, 4, 5, 6, 7]}),
    # three replicas, one operand has 1 of 3, the other 2 of 3
    ({'e|r2': [1, 2, 3, 4, 5]}, {'e|r1': [1, 2, 3, 4, 5], 'e|r3': [1, 3, 5, 7, 9]}),
    # ensemble name that is a prefix of another ensemble name
    ({'e|r1': [1, 2, 3, 4, 5]}, {'ee|r1': [1, 2, 3, 4, 5], 'e|r1': [1, 2, 3, 4, 6]}),
]


def random_pairs(seed, n, universe=range(1, 9), minlen=5):
    rnd = random.Random(seed)
    subs = subsets(universe, minlen)
    return [(rnd.choice(subs), rnd.choice(subs)) for _ in range(n)]


def all_pairs(universe=range(1, 9), minlen=5):
    subs = subsets(universe, minlen)
    return [(a, b) for a in subs for b in subs]
