"""CrossHair (symbolic execution of Python with z3) as an auxiliary engine for string-valued inputs.

A harness module `props/xh_*.py` holds functions `check_X(args)` that call the REAL pyerrors code (imported from /repo's working tree)
with a PEP316 contract `post: __return__ == spec_X(args)` and stated bounds as `pre:` lines.  `decide()` runs `crosshair check` on one such
function in a sub-process and turns the verdict into an obligation of the calling harness:

  Confirmed over all paths          -> discharged (decided by CrossHair's z3 queries over all paths within the pre-conditions)
  error: ... when calling f(args)   -> refuted; the arguments become the counterexample and are replayed (conc mode: plain Python call of the
                                       same function on the concrete arguments against the real code) before anything is reported
  Not confirmed / Unable to meet precondition / anything else -> inconclusive ('unknown')
"""
import ast
import importlib
import os
import re
import subprocess
import sys
import time


def _def_line(path, func):
    tree = ast.parse(open(path).read())
    for node in tree.body:
        if isinstance(node, ast.FunctionDef) and node.name == func:
            return node.lineno
    raise KeyError(func)


def decide(cx, modname, func, label, timeout=60):
    """decides `post` of modname.func for all arguments within its `pre`; returns 'unsat' | 'sat' | 'unknown'"""
    mod = importlib.import_module(modname)
    if cx.mode == 'conc':
        call = cx.values.get('xh_call')
        if call and call.startswith(func + '('):
            got = eval(call, vars(mod))                                       # the check function on the concrete counterexample, real code underneath
            want = eval('spec_' + call[len('check_'):], vars(mod)) if func.startswith('check_') else True
            cx.prove(got == want, label)
        return 'conc'
    path = mod.__file__
    line = _def_line(path, func)
    env = dict(os.environ, PYTHONPATH=os.pathsep.join(p for p in sys.path if p), PYTHONDONTWRITEBYTECODE='1')
    t0 = time.time()
    try:
        p = subprocess.run([sys.executable, '-m', 'crosshair', 'check', '--report_all', '--per_condition_timeout', str(timeout), '%s:%d' % (path, line + 1)],
                           env=env, capture_output=True, text=True, timeout=4 * timeout + 60)
        out = p.stdout + p.stderr
    except subprocess.TimeoutExpired:
        out = 'timeout'
    dt = round(time.time() - t0, 3)
    cx.nq += 1
    cx.tq += dt
    m = re.search(r'error: (.*?) when calling (%s\(.*?\))(?: \(which returns (.*?)\))?[ \t]*$' % re.escape(func), out, re.M)
    if m:
        call = m.group(2).strip()
        d = cx._record(label, 'sat', tier='crosshair', t=dt, detail='CrossHair: %s when calling %s%s' % (m.group(1)[:200], call, (' -> ' + m.group(3)) if m.group(3) else ''))
        d['model'] = {'xh_call': call}
        return 'sat'
    if 'Confirmed over all paths' in out and 'error' not in out and 'Not confirmed' not in out:
        d = cx._record(label, 'unsat', tier='crosshair', t=dt)
        d['smt'] = 'crosshair check %s:%s (per_condition_timeout %s): Confirmed over all paths' % (os.path.basename(path), func, timeout)
        return 'unsat'
    cx._record(label, 'unknown', tier='crosshair', t=dt, detail=out.strip()[-300:])
    return 'unknown'
