"""Specification of the Gamma method (Wolff, hep-lat/0306017; tail of Schaefer et al.) written directly on terms,
with if-then-else instead of branches. Shared by C02, C03, C06."""
import math

import numpy as np

from . import core
from .core import If, And, Or, Not, sqrt, exp, log

EPS = float(np.finfo(np.float64).eps)
TINY = float(np.finfo(float).tiny)


def finfo_syms(cx):
    """eps / tiny as the engine represents them (symbols tied to their exact values in 'sym' mode)"""
    if cx.mode == 'sym':
        from .npshim import _FInfo
        fi = _FInfo(np.finfo(np.float64))
        return fi.eps, fi.tiny
    return EPS, TINY


def common_gap(idls):
    gaps = []
    for l in idls:
        l = list(l)
        gaps.append(min(b - a for a, b in zip(l, l[1:])))
    g = min(gaps)
    if any(x % g for x in gaps):
        return None
    return g


def gamma_spec_from_deltas(ens_deltas, w_max):
    """ens_deltas: list over replicas of {cfg: fluctuation}.
    Gamma(t) = sum over replicas of products of fluctuations t measurement steps apart / number of such pairs."""
    gap = common_gap([sorted(d) for d in ens_deltas])
    out = []
    for t in range(w_max):
        tot = 0
        cnt = 0
        for d in ens_deltas:
            cf = sorted(d)
            s = set(cf)
            for c in cf:
                if c + t * gap in s:
                    tot = tot + d[c] * d[c + t * gap]
                    cnt += 1
        out.append((tot, cnt))
    return out, gap


def wolff(cx, G, N, S=None, tau_exp=None, N_sigma=None, mode='std'):
    """G[t] = normalised autocorrelation function Gamma(t), t < w_max; N = number of measurements of the ensemble.
    Returns dict of outputs (W as int-valued term / python int)."""
    w_max = len(G)
    eps, tiny = finfo_syms(cx)
    early = abs(G[0]) < 10 * tiny
    rho = [G[t] / G[0] for t in range(w_max)]
    cum = [0.5]
    for t in range(1, w_max):
        cum.append(cum[-1] + rho[t])
    nt = [If(c <= 0.5, 0.5 + eps, c) for c in cum]
    ndt = [0.0] + [nt[W] * 2 * sqrt(abs(W + 0.5 - nt[W]) / N) for W in range(1, w_max)]

    def drho(i):
        s = 0
        for k in range(1, w_max - i):
            term = rho[k + i] + rho[abs(k - i)] - 2 * rho[i] * rho[k]
            s = s + term * term
        if isinstance(s, int):
            return 0.0
        return sqrt(s / N)

    def result(W, tail=False):
        tau = nt[W] * (1 + (2 * W + 1) / N) / (1 + 1 / N)
        dtau = ndt[W]
        if tail:
            tau = tau + tau_exp * abs(rho[W + 1])
            dtau = sqrt(ndt[W] * ndt[W] + tau_exp * tau_exp * drho(W + 1) * drho(W + 1))
        dv = sqrt(2 * tau * G[0] * (1 + 1 / N) / N)
        return dict(W=W, tau=tau, dtau=dtau, dv=dv, ddv=dv * sqrt((W + 0.5) / N))

    zero = dict(W=0, tau=0.5, dtau=0.0, dv=0.0, ddv=0.0)
    if mode == 's0':
        dv = sqrt(G[0] / (N - 1))
        cases = [(None, dict(W=0, tau=0.5, dtau=0.0, dv=dv, ddv=dv * sqrt(0.5 / N)))]
    elif mode == 'std':
        cases = []
        for W in range(1, w_max):
            tauW = S / log((2 * nt[W] + 1) / (2 * nt[W] - 1))
            gW = exp(-W / tauW) - tauW / float(np.sqrt(W * N))
            cases.append((gW < 0 if W < w_max - 1 else None, result(W)))
    else:
        cases = []
        last = w_max // 2 - 1
        for n in range(1, w_max // 2):
            cond = Or(rho[n] - N_sigma * drho(n) < 0, n >= w_max // 2 - 2)
            cases.append((cond if n < last else None, result(n, tail=True)))
    out = {}
    for key in ('W', 'tau', 'dtau', 'dv', 'ddv'):
        cur = cases[-1][1][key]
        for cond, res in reversed(cases[:-1]):
            cur = If(cond, res[key], cur)
        out[key] = If(early, zero[key], cur)
    out.update(rho=rho, n_tauint=nt, n_dtauint=ndt, drho=drho, early=early, cases=cases)
    return out
