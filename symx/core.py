"""symx core: re-execution symbolic executor for numpy-object-array code.

The real pyerrors code is run on proxy numbers (`SV`: z3 Real terms, `SInt`: z3 Int terms).
Data-dependent branches go through `SB.__bool__` -> `Ctx.branch`, which follows a decision
prefix, tests both sides for feasibility and schedules the alternative for a later re-execution.

A harness is written once and runs in two modes:
  * mode 'sym'  : inputs are symbols, `prove_eq/prove` are solver queries (fresh z3 solver each)
  * mode 'conc' : inputs are floats (from a solver model), `prove_eq/prove` are float comparisons;
                  this is the replay of a counterexample against the unstubbed code.
"""
import fractions
import math
import os
import time
import types

import numpy as _np
import z3

Fraction = fractions.Fraction


class Realize(Exception):
    """A symbolic value would have to be turned into a concrete one: harness limitation."""


class Infeasible(BaseException):
    """The current path condition is unsatisfiable; the path is dropped."""


class PathBound(Exception):
    pass


class ReplayInvalid(Exception):
    """In concrete replay an `assume` does not hold for the float values."""


# --------------------------------------------------------------------------------------
# numerals

_SNAP_DEN = 10 ** 7
_SNAP_REL = 2e-15


def snap(x):
    """Exact rational meant by a Python float.

    Doubles that lie within 2e-15 (relative) of a rational with denominator < 1e7 are read as that
    rational: `1 / 10`, `(1 + 3 / N) / (1 + 1 / N)`... computed by the source in double arithmetic from
    small integers then carry the value the *source expression* denotes over the reals (the claims
    are about real-number semantics), independent of the order of the float operations.
    Every other double keeps its exact binary value.
    """
    x = float(x)
    if x != x or x in (float('inf'), float('-inf')):
        raise Realize('non-finite constant %r' % x)
    f = Fraction(x)
    if f.denominator == 1:
        return f
    # a double whose shortest round-tripping decimal is short (<= 12 significant digits) is read as that decimal (1e-08 -> 10^-8)
    r = repr(x)
    mant = r.lower().split('e')[0].replace('-', '').replace('.', '').lstrip('0').rstrip('0')
    if len(mant) <= 12:
        return Fraction(r)
    g = f.limit_denominator(_SNAP_DEN)
    if g != 0 and abs(g - f) <= _SNAP_REL * abs(f):
        return g
    return f


def RV(x):
    if isinstance(x, bool) or isinstance(x, _np.bool_):
        raise TypeError('bool')
    if isinstance(x, (int, _np.integer)):
        return z3.RealVal(int(x))
    if isinstance(x, (float, _np.floating)):
        return z3.RealVal(str(snap(x)))
    if isinstance(x, Fraction):
        return z3.RealVal(str(x))
    raise TypeError(type(x))


def const_of(t):
    """Fraction if the (simplified) term is a numeral, else None."""
    if z3.is_rational_value(t):
        return Fraction(t.numerator_as_long(), t.denominator_as_long())
    if z3.is_int_value(t):
        return Fraction(t.as_long())
    return None


def tsize(t, cap=10 ** 9):
    seen = set()
    st = [t]
    n = 0
    while st:
        e = st.pop()
        i = e.get_id()
        if i in seen:
            continue
        seen.add(i)
        n += 1
        if n > cap:
            return n
        st.extend(e.children())
    return n


# --------------------------------------------------------------------------------------
# opaque (uninterpreted) functions: name -> (float implementation, definitional lemma builder)

def _f_arccosh(x):
    return math.acosh(x)


FLOAT_IMPL = {
    'sqrt': math.sqrt, 'exp': math.exp, 'log': math.log, 'log10': math.log10,
    'sin': math.sin, 'cos': math.cos, 'tan': math.tan,
    'arcsin': math.asin, 'arccos': math.acos, 'arctan': math.atan,
    'sinh': math.sinh, 'cosh': math.cosh, 'tanh': math.tanh,
    'arcsinh': math.asinh, 'arccosh': math.acosh, 'arctanh': math.atanh,
}


class Ctx:
    """One execution (one path in 'sym' mode, one replay in 'conc' mode)."""
    cur = None

    def __init__(self, mode='sym', decisions=(), values=None, opts=None):
        self.mode = mode
        self.decisions = list(decisions)
        self.pos = 0
        self.pc = []
        self.worklist = []
        self.values = dict(values or {})
        self.vars = {}          # name -> z3 const (base inputs, creation order)
        self.memo = {}
        self.opq = {}           # fresh name -> (fn, (args...), var)
        self.divs = {}          # fresh name -> (num, den, q)
        self.absd = {}          # fresh name -> (term, var)
        self.fresh = 0
        self.nq = 0
        self.tq = 0.0
        self.assumed_feasible = 0
        self.obligations = []   # dicts
        self.notes = []
        self.undo = []          # monkey patches to revert
        self.extra_lemmas = []  # harness supplied facts (contracts)
        self._fact_syms = []
        self.domain = []        # automatically assumed denominators != 0
        o = dict(feas_timeout=2000, timeout=60000, abstract_k=10 ** 9, max_tier=4,
                 auto_div_domain=True, auto_fn_domain=True, tol=1e-8)
        o.update(opts or {})
        self.o = o
        self.last_model = None
        self.failed = []        # conc mode: failed labels
        self.keep = []          # keeps canonical key terms alive (ids must not be reused)
        self.cache = None       # job-level obligation cache: (label, decision prefix) -> record

    # ---------------------------------------------------------------- inputs
    def real(self, name):
        if self.mode == 'conc':
            if name in self.values:
                return float(self.values[name])
            return default_value(name, self.values.get('__salt__', 0))
        if name not in self.vars:
            self.vars[name] = z3.Real(name)
        return SV(self.vars[name])

    def reals(self, prefix, n):
        return _np.array([self.real('%s%d' % (prefix, i)) for i in range(n)], dtype=object if self.mode == 'sym' else float)

    def integer(self, name, lo=None, hi=None):
        if self.mode == 'conc':
            return int(round(float(self.values.get(name, lo if lo is not None else 0))))
        if name not in self.vars:
            self.vars[name] = z3.Int(name)
        v = self.vars[name]
        if lo is not None:
            self.pc.append(v >= lo)
        if hi is not None:
            self.pc.append(v <= hi)
        return SInt(v)

    def newvar(self, stem):
        self.fresh += 1
        return z3.Real('%s!%d' % (stem, self.fresh))

    # ---------------------------------------------------------------- lemmas
    def lemmas(self, fs, tier):
        """Lemmas for the abstraction symbols reachable from the formulas fs.
        tier 1: none; 2: functional consistency; 3: definitions; 4: unfold size abstractions."""
        if tier <= 1:
            return []
        seen = set()
        out = []
        stack = list(fs)
        names = []
        while stack:
            e = stack.pop()
            i = e.get_id()
            if i in seen:
                continue
            seen.add(i)
            if z3.is_const(e) and e.decl().kind() == z3.Z3_OP_UNINTERPRETED:
                n = e.decl().name()
                if n in names:
                    continue
                if n in self.divs:
                    nu, de, q = self.divs[n]
                    for m in names:
                        if m in self.divs:
                            out.append(z3.Implies(z3.And(nu == self.divs[m][0], de == self.divs[m][1]), q == self.divs[m][2]))
                    names.append(n)
                    stack += [nu, de]
                    if tier >= 3:
                        out.append(z3.Implies(de != 0, q * de == nu))
                elif n in self.absd:
                    names.append(n)   # tier 4 unfolds these by substitution (see check)
                elif n in self.opq:
                    fn, args, v = self.opq[n]
                    for m in names:
                        if m in self.opq and self.opq[m][0] == fn:
                            out.append(z3.Implies(z3.And(*[a == b for a, b in zip(args, self.opq[m][1])]), v == self.opq[m][2]))
                    names.append(n)
                    stack.extend(args)
                    if tier >= 3:
                        out.extend(self._definition(fn, args, v, names))
            else:
                stack.extend(e.children())
        return out

    def _definition(self, fn, args, v, names):
        a = args[0]
        out = []
        if fn == 'sqrt':
            out.append(z3.And(v >= 0, z3.Implies(a >= 0, v * v == a)))
        elif fn == 'exp':
            out.append(v > 0)
        elif fn == 'cosh':
            out.append(v >= 1)
        elif fn == 'tanh':
            out.append(z3.And(v > -1, v < 1))
        elif fn in ('sin', 'cos'):
            out.append(z3.And(v >= -1, v <= 1))
        # pairwise identities with already collected symbols on the same argument
        pair = {'sin': 'cos', 'cos': 'sin', 'sinh': 'cosh', 'cosh': 'sinh'}
        for m in names:
            if m not in self.opq:
                continue
            fm, am, vm = self.opq[m]
            if len(am) != 1 or len(args) != 1:
                continue
            same = (am[0].get_id() == a.get_id())
            if not same:
                continue
            fs = {fn: v, fm: vm}
            if set(fs) == {'sin', 'cos'}:
                out.append(fs['sin'] * fs['sin'] + fs['cos'] * fs['cos'] == 1)
            if set(fs) == {'sinh', 'cosh'}:
                out.append(fs['cosh'] * fs['cosh'] - fs['sinh'] * fs['sinh'] == 1)
            if set(fs) == {'tan', 'cos'}:
                out.append(z3.And(fs['cos'] != 0, (1 + fs['tan'] * fs['tan']) * fs['cos'] * fs['cos'] == 1))
            if set(fs) == {'tanh', 'cosh'}:
                out.append((1 - fs['tanh'] * fs['tanh']) * fs['cosh'] * fs['cosh'] == 1)
            if set(fs) == {'tan', 'sin'}:
                pass
        return out

    # ---------------------------------------------------------------- solver
    def check(self, *extra, tier=None, timeout=None, use_pc=True, min_tier=1, use_facts=True):
        """Satisfiability of pc + extra with lemma tiers; returns 'sat' | 'unsat' | 'unknown'."""
        tier = tier or self.o['max_tier']
        t0 = time.time()
        if use_facts and self.o.get('staged_facts') and self.extra_lemmas and not getattr(self, '_in_stage', False):
            # first only the contract facts that speak about nothing but the contract symbols of the query itself (e.g. the ordering of eigenvalues,
            # without the eigen-equations): fewer assumptions, so `unsat` is final; anything else goes on to the transitive closure
            base = list(extra) + (list(self.pc) if use_pc else [])
            cur = self._contract_syms(base)
            direct = [f for f, syms in zip(self.extra_lemmas, self._fact_syms) if syms and syms <= cur]
            if direct and len(direct) < len(self._relevant_facts(base)):
                self._in_stage = True
                try:
                    saved = self.extra_lemmas, self._fact_syms
                    self.extra_lemmas, self._fact_syms = direct, [self._contract_syms([f]) for f in direct]
                    r = self.check(*extra, tier=tier, timeout=min(int(timeout or self.o['timeout']), 20000), use_pc=use_pc, min_tier=min_tier, use_facts=True)
                finally:
                    self.extra_lemmas, self._fact_syms = saved
                    self._in_stage = False
                if r == 'unsat':
                    return r
        fs = (list(self.pc) if use_pc else []) + (self._relevant_facts(list(extra) + (list(self.pc) if use_pc else [])) if use_facts else []) + list(extra)
        if getattr(self, 'elim', None):
            fs = [z3.substitute(f, *self.elim) for f in fs]
        res = 'sat'
        last_tier = 0
        nlem_prev = -1
        for tr in range(min_tier, tier + 1):
            if tr >= 4:
                if not self.absd:
                    continue
                fs = self.unfold(fs)    # size abstractions are inlined, not added as equations
                lem = []
                for _ in range(6):      # lemmas may mention further abstraction symbols: close under unfolding
                    new = self.unfold(self.lemmas(fs + lem, 3))
                    if len(new) == len(lem):
                        break
                    lem = new
            else:
                lem = self.lemmas(fs, tr)
            if tr > min_tier and tr < 4 and len(lem) == nlem_prev and res != 'unknown':
                continue  # nothing new at this tier
            nlem_prev = len(lem)
            sv = z3.Solver()
            sv.set('timeout', int(timeout or self.o['timeout']))
            sv.add(*fs)
            sv.add(*lem)
            res = str(sv.check())
            if res == 'unknown' and timeout is None:
                # nlsat is sensitive to variable order: retry with other seeds before giving up
                for seed in (7, 1234):
                    sv = z3.Solver()
                    sv.set('timeout', int(self.o['timeout']))
                    sv.set('random_seed', seed)
                    z3.set_param('nlsat.seed', seed)
                    sv.add(*fs)
                    sv.add(*lem)
                    res = str(sv.check())
                    self.retries = getattr(self, 'retries', 0) + 1
                    if res != 'unknown':
                        break
                z3.set_param('nlsat.seed', 0)
            last_tier = tr
            self.last = sv
            if res == 'unsat':
                break
        self.nq += 1
        self.tq += time.time() - t0
        self.last_tier = last_tier
        return res

    def eliminate(self, var, expr, label):
        """prove var == expr on this path, then replace var by expr in every later query (solve-eqs by hand: nlsat does not find such substitutions)"""
        if self.mode != 'sym':
            return True
        if not self.prove_eq(var, expr, label):
            return False
        if not hasattr(self, 'elim'):
            self.elim = []
        self.elim.append((tz(var), tz(expr)))
        return True

    def unfold(self, fs):
        """substitute the definitions of the size-triggered abstraction symbols (repeatedly: definitions may nest)"""
        subs = [(v, t) for (t, v) in self.absd.values()]
        out = list(fs)
        for _ in range(50):
            new = [z3.substitute(f, *subs) for f in out]
            if all(a.get_id() == b.get_id() for a, b in zip(new, out)):
                break
            out = new
        return out

    def model_values(self):
        """Values of the base inputs in the model of the last `sat` query."""
        m = self.last.model()
        out = {}
        for n, v in self.vars.items():
            val = m.eval(v, model_completion=False)
            if z3.is_const(val) and val.decl().kind() == z3.Z3_OP_UNINTERPRETED:
                continue    # not constrained by the query: the replay picks a generic default
            out[n] = _num_to_str(val)
        return out

    # ---------------------------------------------------------------- control
    def assume(self, cond, why=None):
        if self.mode == 'conc':
            if not bool(cond):
                raise ReplayInvalid(why or 'assumption')
            return
        t = cond.t if isinstance(cond, SB) else cond
        if t is True or (not isinstance(t, z3.ExprRef) and bool(t)):
            return
        if t is False:
            raise Infeasible()
        self.pc.append(t)
        if self.check(tier=2, timeout=self.o['feas_timeout']) == 'unsat':
            raise Infeasible()

    def assume_all(self, conds, why=None):
        """several preconditions at once (one feasibility check instead of one per condition)"""
        if self.mode == 'conc':
            for c in conds:
                if not bool(c):
                    raise ReplayInvalid(why or 'assumption')
            return
        for c in conds:
            t = c.t if isinstance(c, SB) else c
            if isinstance(t, z3.ExprRef):
                self.pc.append(t)
            elif not t:
                raise Infeasible()
        if self.check(tier=2, timeout=self.o['feas_timeout']) == 'unsat':
            raise Infeasible()

    def fact(self, cond):
        """Contract fact about fresh contract symbols (e.g. `A X = B`, `grad chi2(p) = 0`): added to every later query that
        mentions one of its contract symbols (transitively); not checked for feasibility."""
        if self.mode == 'conc':
            return
        t = cond.t if isinstance(cond, SB) else cond
        self.extra_lemmas.append(t)
        self._fact_syms.append(self._contract_syms([t]))

    CONTRACT_STEMS = ('fitp!', 'solve!', 'odr!', 'root!', 'lstsq!', 'inv_c!', 'eig!', 'chol!', 'trsolve!', 'cond!')

    def _contract_syms(self, fs):
        seen, out, st = set(), set(), list(fs)
        while st:
            e = st.pop()
            i = e.get_id()
            if i in seen:
                continue
            seen.add(i)
            if z3.is_const(e) and e.decl().kind() == z3.Z3_OP_UNINTERPRETED:
                n = e.decl().name()
                if n.startswith(self.CONTRACT_STEMS):
                    out.add(n)
                elif n in self.divs:
                    st.extend(self.divs[n][:2])
                elif n in self.opq:
                    st.extend(self.opq[n][1])
                elif n in self.absd:
                    st.append(self.absd[n][0])
            else:
                st.extend(e.children())
        return out

    def _relevant_facts(self, fs):
        if not self.extra_lemmas:
            return []
        cur = self._contract_syms(fs)
        chosen = [False] * len(self.extra_lemmas)
        changed = True
        while changed:
            changed = False
            for k, syms in enumerate(self._fact_syms):
                if not chosen[k] and (not syms or syms & cur):
                    chosen[k] = True
                    if syms - cur:
                        cur |= syms
                        changed = True
        return [f for f, c in zip(self.extra_lemmas, chosen) if c]

    def branch(self, cond):
        cond = z3.simplify(cond)
        if z3.is_true(cond):
            return True
        if z3.is_false(cond):
            return False
        if self.pos < len(self.decisions):
            d = self.decisions[self.pos]
            self.pos += 1
            self.pc.append(cond if d else z3.Not(cond))
            return d
        # a condition that literally is (the negation of) an assumed / decided formula needs no solver
        known = self._pc_index()
        k_, pol_ = _atom_key(cond)
        if k_ is not None and k_ in known:
            val = known[k_] if pol_ else (not known[k_])
            self.decisions.append(val)
            self.pos += 1
            return val
        ft_ = self.o['feas_timeout']
        ftier = self.o.get('feas_tier', 2)
        # a condition that is valid / unsatisfiable on its own needs no path condition (keeps heavy contexts out of trivial tests)
        if tsize(cond, 400) <= 400:
            for val, f in ((True, z3.Not(cond)), (False, cond)):
                t0 = time.time()
                sv = z3.Solver()
                sv.set('timeout', 300)
                sv.add(f)
                r0 = str(sv.check())
                self.tq += time.time() - t0
                if time.time() - t0 > 2 and os.environ.get('SYMX_DEBUG'):
                    print('slow standalone check %.1fs: %s' % (time.time() - t0, str(f)[:300]))
                if r0 == 'unsat':
                    self.decisions.append(val)
                    self.pos += 1
                    self.pc.append(cond if val else z3.Not(cond))
                    return val
        rt = self.check(cond, tier=ftier, timeout=ft_)
        rf = self.check(z3.Not(cond), tier=ftier, timeout=ft_)
        if rt == 'unknown' or rf == 'unknown':
            self.assumed_feasible += 1
        ft = rt != 'unsat'
        ff = rf != 'unsat'
        if ft and ff:
            self.worklist.append(self.decisions[:self.pos] + [False])
            d = True
        elif ft:
            d = True
        elif ff:
            d = False
        else:
            raise Infeasible()
        self.decisions.append(d)
        self.pos += 1
        self.pc.append(cond if d else z3.Not(cond))
        return d

    def _pc_index(self):
        """normal-form keys of the (dis)equalities / comparisons in the path condition -> truth value of the positive atom"""
        n0, idx = getattr(self, '_pcidx', (0, {}))
        for f in self.pc[n0:]:
            k, pol = _atom_key(f)
            if k is not None:
                idx[k] = pol
        self._pcidx = (len(self.pc), idx)
        return idx

    # ---------------------------------------------------------------- obligations
    def _record(self, label, res, **kw):
        d = dict(label=label, res=res, path=''.join('TF'[not x] for x in self.decisions[:self.pos]))
        d.update(kw)
        self.obligations.append(d)
        if self.cache is not None:
            self.cache[self._ckey(label, bump=False)] = d
        return d

    def _skip(self):
        """fail-fast mode (canary runs): once an obligation has failed on this path the remaining ones are not evaluated"""
        if self.o.get('fail_fast'):
            return any(ob['res'] not in ('unsat', 'ground-ok') for ob in self.obligations)
        # a path with many refuted obligations is not going to end as "held": the first few carry the counterexamples, the rest would only cost solver time
        nbad = getattr(self, '_nbad', (0, 0))
        if nbad[0] != len(self.obligations):
            nbad = (len(self.obligations), nbad[1] + sum(1 for ob in self.obligations[nbad[0]:] if ob['res'] in ('sat', 'ground-fail')))
            self._nbad = nbad
        if nbad[1] >= int(self.o.get('max_refuted', 8)):
            if not getattr(self, '_skipping', False):
                self._skipping = True
                self.obligations.append(dict(label='remaining obligations of this path not evaluated after %d refuted ones' % nbad[1], res='skipped', path=''.join('TF'[not x] for x in self.decisions[:self.pos])))
                self._nbad = (len(self.obligations), nbad[1])
            return True
        return False

    def _ckey(self, label, bump=True):
        if not hasattr(self, '_occ'):
            self._occ = {}
        if bump:
            self._occ[label] = self._occ.get(label, 0) + 1
        return (label, self._occ.get(label, 1), ''.join('TF'[not x] for x in self.decisions[:self.pos]))

    def _cached(self, label):
        """An obligation reached with the same decision prefix was already decided on an earlier path of this job
        (re-execution is deterministic, so it is the identical query)."""
        if self.cache is None:
            return None
        d = self.cache.get(self._ckey(label))
        if d is not None and d['res'] in ('unsat', 'ground-ok'):
            self.obligations.append(dict(d, cached=True))
            return d
        return None

    def prove(self, cond, label):
        """cond must hold on this path (for all values)."""
        if self.mode == 'conc':
            ok = bool(cond)
            if not ok:
                self.failed.append(dict(label=label, detail='condition false'))
            return ok
        if isinstance(cond, (bool, _np.bool_)):
            self._record(label, 'ground-ok' if cond else 'ground-fail', ground=True)
            return bool(cond)
        if self._cached(label) is not None:
            return True
        if self._skip():
            return True
        t = cond.t if isinstance(cond, SB) else cond
        t0 = time.time()
        r = self.check(z3.Not(t))
        d = self._record(label, r, tier=self.last_tier, t=round(time.time() - t0, 3))
        if r == 'sat':
            d['model'] = self.model_values()
        if len(self.obligations) <= 3:
            d['smt'] = _short(z3.Not(t))
        return r == 'unsat'

    def prove_eq(self, a, b, label, use_facts=True):
        """a == b on this path; a, b numbers (SV / float / int / Fraction) or arrays of them."""
        if isinstance(a, (list, tuple, _np.ndarray)) or isinstance(b, (list, tuple, _np.ndarray)):
            aa = _np.asarray(a, dtype=object)
            bb = _np.asarray(b, dtype=object)
            if aa.shape != bb.shape:
                if self.mode == 'conc':
                    self.failed.append(dict(label=label, detail='shape %s vs %s' % (aa.shape, bb.shape)))
                else:
                    self._record(label, 'ground-fail', ground=True, detail='shape %s vs %s' % (aa.shape, bb.shape))
                return False
            ok = True
            for idx in _np.ndindex(aa.shape):
                ok &= self.prove_eq(aa[idx], bb[idx], '%s%s' % (label, list(idx)), use_facts=use_facts)
            return ok
        if self.mode == 'conc':
            return self._conc_eq(a, b, label)
        if self._cached(label) is not None:
            return True
        if self._skip():
            return True
        if isinstance(a, SInt):
            a = SV(z3.ToReal(a.t))
        if isinstance(b, SInt):
            b = SV(z3.ToReal(b.t))
        if not isinstance(a, SV) and not isinstance(b, SV):
            try:
                fa, fb = complex(a), complex(b)
            except Exception:
                ok = (a == b)
                self._record(label, 'ground-ok' if ok else 'ground-fail', ground=True, detail='%r vs %r' % (a, b))
                return ok
            ok = abs(fa - fb) <= 1e-12 * (abs(fa) + abs(fb)) + 1e-300
            self._record(label, 'ground-ok' if ok else 'ground-fail', ground=True, detail='%r vs %r' % (a, b))
            return ok
        ta, tb = tz(a), tz(b)
        if ta is NotImplemented or tb is NotImplemented:
            self._record(label, 'ground-fail', ground=True, detail='type %s vs %s' % (type(a).__name__, type(b).__name__))
            return False
        t0 = time.time()
        goal = ta != tb
        sg = z3.simplify(goal)
        if z3.is_false(sg):
            self._record(label, 'unsat', tier=0, t=0.0)
            return True
        # polynomial identities are decided by z3's rewriter (sum-of-monomials normal form) before nlsat is asked
        diff = ta - tb
        if _expanded_size(diff, 20000) <= 20000:
            nf = z3.simplify(diff, som=True, sort_sums=True)
            if const_of(nf) == 0:
                self._record(label, 'unsat', tier=0, t=round(time.time() - t0, 3), by='normal-form')
                return True
        ca, cb = const_of(z3.simplify(ta)), const_of(z3.simplify(tb))
        if ca is not None and cb is not None:
            ok = abs(ca - cb) <= Fraction(1, 10 ** 12) * (abs(ca) + abs(cb))
            self._record(label, 'ground-ok' if ok else 'ground-fail', ground=True, detail='%s vs %s' % (float(ca), float(cb)))
            return ok
        r = self.check(goal, use_facts=use_facts)
        if r != 'unsat' and not use_facts:
            # an identity that was expected to hold without the contract facts: retry with them
            if self.o.get('staged_facts') and r == 'sat':
                # large contract systems (eigen-decompositions): a bounded attempt only; the counterexample found without the facts stays the candidate
                # and the concrete replay against the real code decides
                keep = (self.last, self.last_tier)
                r2 = self.check(goal, timeout=15000)
                if r2 == 'unsat':
                    r = r2
                elif r2 != 'sat':
                    self.last, self.last_tier = keep
            else:
                r = self.check(goal)
        d = self._record(label, r, tier=self.last_tier, t=round(time.time() - t0, 3))
        if r == 'sat':
            d['model'] = self.model_values()
        if len(self.obligations) <= 3:
            d['smt'] = _short(goal)
        return r == 'unsat'

    def _conc_eq(self, a, b, label):
        try:
            fa, fb = complex(a), complex(b)
        except Exception:
            ok = bool(a == b)
            if not ok:
                self.failed.append(dict(label=label, detail='%r vs %r' % (a, b)))
            return ok
        if fa != fa or fb != fb:
            ok = (fa != fa) and (fb != fb)
        else:
            scale = max(abs(fa), abs(fb), self.o.get('abs_scale', 0.0))
            ok = abs(fa - fb) <= self.o['tol'] * scale + 1e-300
        if not ok:
            self.failed.append(dict(label=label, detail='code %r vs spec %r' % (a, b)))
        return ok

    def fail(self, label, detail=''):
        """Unconditional failure on this path (structure mismatch, unexpected exception).
        A candidate input is taken from the cheapest satisfiable approximation of the path condition (no lemmas first);
        it is only a candidate: the concrete replay against the real code decides whether it is reported."""
        if self.mode == 'conc':
            self.failed.append(dict(label=label, detail=detail))
            return
        if self._skip():
            return
        r = self.check(tier=1, timeout=min(10000, self.o['timeout']))
        if r == 'unsat':
            raise Infeasible()
        d = self._record(label, 'sat', tier=self.last_tier, detail=detail, structural=True)
        d['model'] = self.model_values() if r == 'sat' else {}

    def ok(self, label):
        """Structural obligation that held (decided by Python-level comparison of concrete structure)."""
        if self.mode == 'sym':
            self._record(label, 'ground-ok', ground=True)

    def expect(self, cond, label, detail=''):
        """Concrete (structural) condition."""
        if cond:
            self.ok(label)
        else:
            self.fail(label, detail)
        return bool(cond)

    # ---------------------------------------------------------------- patches
    def patch(self, obj, name, value):
        sentinel = object()
        old = obj.__dict__.get(name, sentinel) if isinstance(obj, type) else getattr(obj, name, sentinel)
        self.undo.append((obj, name, old, sentinel))
        setattr(obj, name, value)

    def patch_item(self, d, key, value):
        sentinel = object()
        old = d.get(key, sentinel)
        self.undo.append((d, ('item', key), old, sentinel))
        d[key] = value

    def unpatch(self):
        while self.undo:
            obj, name, old, sentinel = self.undo.pop()
            if isinstance(name, tuple):
                if old is sentinel:
                    obj.pop(name[1], None)
                else:
                    obj[name[1]] = old
            elif old is sentinel:
                try:
                    delattr(obj, name)
                except AttributeError:
                    pass
            else:
                setattr(obj, name, old)


def default_value(name, salt=0):
    """generic (non-degenerate, deterministic) value for an input the counterexample does not constrain.
    The replay tries several families (salt): white noise (0, 1), smooth / strongly autocorrelated (2), alternating (3),
    trend + noise (4), tiny (5) and huge (6) magnitudes; the position along the chain is the trailing integer of the input's name."""
    import zlib
    import re
    h = zlib.crc32(('%s#%s' % (name, salt)).encode())
    u = (h % 100003) / 100003.0
    m = re.search(r'(\d+)$', name)
    k = int(m.group(1)) if m else 0
    if salt == 2:
        return 1.0 + 0.6 * math.sin(k / 2.5 + (zlib.crc32(re.sub(r'\d+$', '', name).encode()) % 7)) + 0.05 * u
    if salt == 3:
        return 1.0 + 0.5 * (-1) ** k + 0.1 * u
    if salt == 4:
        return 0.3 + 0.15 * k + 0.2 * u
    if salt == 5:
        return 1e-7 * (0.5 + u)           # tiny magnitudes: absolute tolerances / cut-offs in the code show up
    if salt == 6:
        return 1e6 * (0.5 + u)
    return 0.5 + u


def _atom_key(f):
    """(key, polarity) of a possibly negated real equality `a == b`: key identifies the canonical polynomial +-(a - b);
    f is equivalent to the atom if polarity else to its negation. (None, True) for other formulas."""
    pol = True
    g = f
    while z3.is_not(g):
        g = g.arg(0)
        pol = not pol
    if z3.is_distinct(g) and g.num_args() == 2:
        pol = not pol
    elif not z3.is_eq(g):
        return None, True
    if g.arg(0).sort().kind() != z3.Z3_REAL_SORT:
        return None, True
    if _expanded_size(g.arg(0) - g.arg(1), 400) > 400:
        return None, True
    s1 = canon(g.arg(0) - g.arg(1)).sexpr()
    s2 = canon(g.arg(1) - g.arg(0)).sexpr()
    return min(s1, s2), pol


def _num_to_str(val):
    if z3.is_int_value(val):
        return str(val.as_long())
    if z3.is_rational_value(val):
        return '%d/%d' % (val.numerator_as_long(), val.denominator_as_long())
    if z3.is_algebraic_value(val):
        a = val.approx(40)
        return '%d/%d' % (a.numerator_as_long(), a.denominator_as_long())
    return str(val)


def str_to_float(s):
    if isinstance(s, (int, float)):
        return float(s)
    try:
        return float(Fraction(s))
    except Exception:
        return 0.0


def _short(t, n=400):
    s = t.sexpr()
    return s if len(s) <= n else s[:n] + ' ...'


# --------------------------------------------------------------------------------------
# proxies

def _isnan(o):
    return isinstance(o, (float, _np.floating)) and o != o


def tz(o):
    """z3 Real term of a number-like object, NotImplemented otherwise."""
    if isinstance(o, SV):
        return o.t
    if isinstance(o, SInt):
        return z3.ToReal(o.t)
    if isinstance(o, (bool, _np.bool_)):
        return z3.RealVal(int(o))
    if isinstance(o, _np.ndarray) and o.shape == ():
        return tz(o.item())
    try:
        return RV(o)
    except TypeError:
        return NotImplemented


def _sz(o):
    return getattr(o, 'sz', 1)


class SB:
    """symbolic boolean; `bool()` is the only branching point"""
    __slots__ = ('t',)

    def __init__(s, t):
        s.t = t

    def __bool__(s):
        return Ctx.cur.branch(s.t)

    @staticmethod
    def _t(o):
        if isinstance(o, SB):
            return o.t
        return z3.BoolVal(bool(o))

    def __and__(s, o):
        return SB(z3.And(s.t, SB._t(o)))
    __rand__ = __and__

    def __or__(s, o):
        return SB(z3.Or(s.t, SB._t(o)))
    __ror__ = __or__

    def __invert__(s):
        return SB(z3.Not(s.t))

    def __int__(s):
        return int(bool(s))

    def __index__(s):
        return int(bool(s))

    def __mul__(s, o):
        return int(bool(s)) * o
    __rmul__ = __mul__

    def __repr__(s):
        return 'SB(%s)' % str(s.t)[:60]


class SV:
    """symbolic real number"""
    __slots__ = ('t', 'sz')
    shape = ()
    ndim = 0
    size = 1

    def __init__(s, t, sz=1):
        c = Ctx.cur
        k = c.o['abstract_k'] if c is not None else 10 ** 9
        if sz > k:
            t = z3.simplify(t)
            sz = tsize(t, k + 1)
            if sz > k and const_of(t) is None:
                key = ('abs', t.get_id())
                if key not in c.memo:
                    v = c.newvar('abs')
                    c.memo[key] = v
                    c.absd[v.decl().name()] = (t, v)
                t = c.memo[key]
                sz = 1
        s.t = t
        s.sz = sz

    def item(s):
        return s

    def __getitem__(s, k):
        if k == () or k is Ellipsis:
            return s
        raise IndexError(k)

    def _b(s, o, f):
        if _isnan(o):
            return _np.float64('nan')     # not-a-number partners (nan_domain mode) absorb symbolic reals
        if isinstance(o, (list, tuple)):
            return _np.asarray([f_apply(s, x, f) for x in o], dtype=object)
        if isinstance(o, _np.ndarray):
            if o.shape == ():
                o = o.item()
            else:
                return NotImplemented
        t = tz(o)
        if t is NotImplemented:
            return NotImplemented
        return SV(f(s.t, t), s.sz + _sz(o) + 1)

    def __add__(s, o):
        return s._b(o, lambda a, b: a + b)

    def __radd__(s, o):
        return s._b(o, lambda a, b: b + a)

    def __sub__(s, o):
        return s._b(o, lambda a, b: a - b)

    def __rsub__(s, o):
        return s._b(o, lambda a, b: b - a)

    def __mul__(s, o):
        return s._b(o, lambda a, b: a * b)

    def __rmul__(s, o):
        return s._b(o, lambda a, b: b * a)

    def __truediv__(s, o):
        if _isnan(o):
            return _np.float64('nan')
        if isinstance(o, (list, tuple)):
            return _np.asarray([s / x for x in o], dtype=object)
        if isinstance(o, _np.ndarray):
            if o.shape == ():
                o = o.item()
            else:
                return NotImplemented
        t = tz(o)
        if t is NotImplemented:
            return NotImplemented
        return sdiv(s.t, t)

    def __rtruediv__(s, o):
        if _isnan(o):
            return _np.float64('nan')
        if isinstance(o, _np.ndarray):
            if o.shape == ():
                o = o.item()
            else:
                return NotImplemented
        t = tz(o)
        if t is NotImplemented:
            return t
        return sdiv(t, s.t)

    def __neg__(s):
        return SV(-s.t, s.sz + 1)

    def __pos__(s):
        return s

    def __pow__(s, o):
        if _isnan(o):
            return _np.float64('nan')
        if isinstance(o, (SV,)):
            co = const_of(z3.simplify(o.t))
            if co is None:
                return opaque('pow', s.t, o.t)
            o = float(co) if co.denominator != 1 else int(co)
        if isinstance(o, (float, _np.floating)) and float(o).is_integer():
            o = int(o)
        if isinstance(o, (int, _np.integer)) and not isinstance(o, bool):
            o = int(o)
            if o >= 0:
                if o > 64:
                    raise Realize('large power')
                r = z3.RealVal(1)
                for _ in range(o):
                    r = r * s.t
                return SV(r, s.sz * max(o, 1) + 1)
            return 1 / (s ** (-o))
        if isinstance(o, (float, _np.floating)):
            if float(2 * o).is_integer() and abs(o) < 32:
                # half-integer exponent: x ** (k + 1/2) = x ** k * sqrt(x) on the domain x > 0
                k = int(math.floor(o))
                return (s ** k) * s.sqrt() if k != 0 else s.sqrt()
            return opaque('pow', s.t, RV(o))
        return NotImplemented

    def __rpow__(s, o):
        if _isnan(o):
            return _np.float64('nan')
        t = tz(o)
        if t is NotImplemented:
            return t
        return opaque('pow', t, s.t)

    def __abs__(s):
        return SV(z3.If(s.t >= 0, s.t, -s.t), s.sz + 2)

    def __bool__(s):
        # truthiness of a number (`x or default`, `if x:`, filter(None, ...)) is a branch on x != 0
        return bool(SB(s.t != 0))

    def _c(s, o, f):
        if _isnan(o):
            return False
        if isinstance(o, _np.ndarray) and o.shape != ():
            return NotImplemented
        t = tz(o)
        if t is NotImplemented:
            return NotImplemented
        return SB(f(s.t, t))

    def __lt__(s, o):
        return s._c(o, lambda a, b: a < b)

    def __le__(s, o):
        return s._c(o, lambda a, b: a <= b)

    def __gt__(s, o):
        return s._c(o, lambda a, b: a > b)

    def __ge__(s, o):
        return s._c(o, lambda a, b: a >= b)

    def __eq__(s, o):
        if o is None:
            return False
        r = s._c(o, lambda a, b: a == b)
        return False if r is NotImplemented else r

    def __ne__(s, o):
        if o is None:
            return True
        r = s._c(o, lambda a, b: a != b)
        return True if r is NotImplemented else r

    __hash__ = None

    def __float__(s):
        c = const_of(z3.simplify(s.t))
        if c is not None:
            return float(c)
        raise Realize('float() of symbolic value')

    def __int__(s):
        raise Realize('int() of symbolic value')

    def __round__(s, n=None):
        """Python's round(): nearest integer, ties to even -- as a fresh integer with its exact definition"""
        if n is not None:
            raise Realize('round(x, n) of symbolic value')
        c = Ctx.cur
        t = z3.simplify(s.t)
        cv = const_of(t)
        if cv is not None:
            return round(cv)
        key = ('round', t.get_id())
        if key not in c.memo:
            c.fresh += 1
            k = z3.Int('round!%d' % c.fresh)
            c.memo[key] = (k, t)
            kr = z3.ToReal(k)
            c.pc.append(z3.Or(z3.And(t - kr < RV(0.5), kr - t < RV(0.5)),
                              z3.And(z3.Or(t - kr == RV(0.5), kr - t == RV(0.5)), k % 2 == 0)))
        return SInt(c.memo[key][0])

    def __complex__(s):
        raise Realize('complex() of symbolic value')

    def __repr__(s):
        return 'SV(%s)' % str(s.t)[:60].replace('\n', ' ')

    def __format__(s, spec):
        return repr(s)

    def conjugate(s):
        return s

    @property
    def real(s):
        return s

    @property
    def imag(s):
        return 0

    def __reduce__(s):
        raise Realize('pickling symbolic value')


def f_apply(s, x, f):
    t = tz(x)
    if t is NotImplemented:
        raise Realize('operand %r' % (x,))
    return SV(f(s.t, t))


def _mk_method(name):
    def m(s):
        return opaque(name, s.t)
    m.__name__ = name
    return m


for _n in FLOAT_IMPL:
    setattr(SV, _n, _mk_method(_n))


def _expanded_size(t, cap=3000):
    cap = int(cap)
    """estimate of the number of monomials after expanding products of sums (memoised on the DAG)"""
    memo = {}

    def est(e):
        i = e.get_id()
        if i in memo:
            return memo[i]
        k = e.decl().kind() if z3.is_app(e) else None
        ch = e.children()
        if not ch:
            r = 1
        elif k == z3.Z3_OP_ADD or k == z3.Z3_OP_SUB:
            r = sum(est(c) for c in ch)
        elif k == z3.Z3_OP_MUL:
            r = 1
            for c in ch:
                r *= est(c)
                if r > cap:
                    break
        elif k == z3.Z3_OP_UMINUS:
            r = est(ch[0])
        else:
            r = cap + 1 if k in (z3.Z3_OP_ITE,) and False else max(est(c) for c in ch)
        r = min(r, cap + 1)
        memo[i] = r
        return r
    return est(t)


def canon(t):
    """canonical form for memoisation: sum of monomials with sorted sums, so that algebraically equal polynomials built in a
    different order share their abstraction symbol (skipped when the expansion would be large)"""
    if _expanded_size(t) > 3000:
        return z3.simplify(t)
    return z3.simplify(t, som=True, sort_sums=True)


def opaque(fn, *args):
    """Uninterpreted application memoised on the canonical form of the arguments (the definition keeps the
    compact, un-expanded form of the first occurrence)."""
    c = Ctx.cur
    cargs = tuple(canon(a) for a in args)
    cv = [const_of(a) for a in cargs]
    if all(v is not None for v in cv):
        try:
            if fn == 'pow':
                if cv[1].denominator == 1 and abs(cv[1]) <= 64:
                    return SV(RV(cv[0] ** int(cv[1])))
                return SV(RV(float(cv[0]) ** float(cv[1])))
            return SV(RV(float(getattr(_np, fn)(float(cv[0])))))
        except (ValueError, OverflowError, ZeroDivisionError) as e:
            raise Realize('%s of constant outside domain: %s' % (fn, e))
    key = (fn,) + tuple(a.get_id() for a in cargs)
    if key not in c.memo:
        args = tuple(z3.simplify(a) for a in args)
        v = c.newvar(fn)
        c.memo[key] = v
        c.opq[v.decl().name()] = (fn, args, v)
        c.keep.append(cargs)
        if c.o['auto_fn_domain']:
            a = args[0]
            dom = {'sqrt': lambda: a >= 0, 'log': lambda: a > 0, 'log10': lambda: a > 0, 'arccosh': lambda: a >= 1,
                   'arcsin': lambda: z3.And(a >= -1, a <= 1), 'arccos': lambda: z3.And(a >= -1, a <= 1),
                   'arctanh': lambda: z3.And(a > -1, a < 1), 'pow': lambda: a > 0}.get(fn)
            if dom is not None:
                if c.o.get('nan_domain'):
                    # floating-point semantics of the domain: outside it the function returns not-a-number (one more path) instead of being excluded
                    if not c.branch(dom()):
                        del c.memo[key]
                        del c.opq[v.decl().name()]
                        return _np.float64('nan')
                else:
                    c.pc.append(dom())
                    c.domain.append(a)
    return SV(c.memo[key])


def _is_var(t):
    return z3.is_const(t) and t.decl().kind() == z3.Z3_OP_UNINTERPRETED


def _reciprocal(c, den):
    """1/den as a product of reciprocal symbols when den is a (numeral times a) product of plain variables, else None"""
    if not c.o.get('reciprocal_symbols', True):
        return None
    factors = []

    def base(t):
        return _is_var(t) and t.decl().name() in c.vars     # harness inputs only, not abstraction symbols
    if base(den):
        factors = [den]
    elif z3.is_app(den) and den.decl().kind() == z3.Z3_OP_MUL:
        for ch in den.children():
            if base(ch) or const_of(ch) is not None:
                factors.append(ch)
            else:
                return None
    else:
        return None
    out = None
    for f in factors:
        cv = const_of(f)
        if cv is not None:
            if cv == 0:
                raise ZeroDivisionError('division by zero')
            t = RV(1 / cv)
        else:
            key = ('inv', f.get_id())
            if key not in c.memo:
                q = c.newvar('inv')
                c.memo[key] = q
                c.divs[q.decl().name()] = (z3.RealVal(1), f, q)
                c.keep.append(f)
                if c.o['auto_div_domain']:
                    c.pc.append(f != 0)
                    c.domain.append(f)
            t = c.memo[key]
        out = t if out is None else out * t
    return out


def sdiv(num, den):
    c = Ctx.cur
    cden = canon(den)
    cd = const_of(cden)
    if cd is not None:
        if cd == 0:
            raise ZeroDivisionError('division by zero')
        return SV(num * RV(1 / cd) if cd != 1 else num, tsize(num, 50) + 2)
    cnum = canon(num)
    if const_of(cnum) == 0:
        if c.o['auto_div_domain']:
            c.pc.append(z3.simplify(den) != 0)
        return SV(z3.RealVal(0))
    inv = _reciprocal(c, cden)
    if inv is not None:
        # denominator is a product of plain symbols: x / d = x * inv_d with one reciprocal symbol per variable
        return SV(num * inv, tsize(num, 50) + 3)
    key = ('div', cnum.get_id(), cden.get_id())
    if key not in c.memo:
        num, den = z3.simplify(num), z3.simplify(den)
        q = c.newvar('q')
        c.memo[key] = q
        c.divs[q.decl().name()] = (num, den, q)
        c.keep.append((cnum, cden))
        if c.o['auto_div_domain']:
            c.pc.append(den != 0)
            c.domain.append(den)
    return SV(c.memo[key])


class SInt:
    """symbolic integer"""
    __slots__ = ('t',)

    def __init__(s, t):
        s.t = z3.IntVal(t) if isinstance(t, int) else t

    @staticmethod
    def tz(o):
        if isinstance(o, SInt):
            return o.t
        if isinstance(o, (int, _np.integer)) and not isinstance(o, (bool, _np.bool_)):
            return z3.IntVal(int(o))
        return NotImplemented

    def _b(s, o, f):
        t = SInt.tz(o)
        if t is NotImplemented:
            if isinstance(o, (float, _np.floating, SV)):
                return getattr(SV(z3.ToReal(s.t)), f.__name__)(o) if hasattr(f, '__name__') else NotImplemented
            return NotImplemented
        return SInt(f(s.t, t))

    def __add__(s, o):
        t = SInt.tz(o)
        if t is NotImplemented:
            return SV(z3.ToReal(s.t)) + o
        return SInt(s.t + t)
    __radd__ = __add__

    def __sub__(s, o):
        t = SInt.tz(o)
        if t is NotImplemented:
            return SV(z3.ToReal(s.t)) - o
        return SInt(s.t - t)

    def __rsub__(s, o):
        t = SInt.tz(o)
        if t is NotImplemented:
            return o - SV(z3.ToReal(s.t))
        return SInt(t - s.t)

    def __mul__(s, o):
        t = SInt.tz(o)
        if t is NotImplemented:
            return SV(z3.ToReal(s.t)) * o
        return SInt(s.t * t)
    __rmul__ = __mul__

    def __truediv__(s, o):
        return SV(z3.ToReal(s.t)) / (SV(z3.ToReal(o.t)) if isinstance(o, SInt) else o)

    def __rtruediv__(s, o):
        return o / SV(z3.ToReal(s.t))

    def __floordiv__(s, o):
        t = SInt.tz(o)
        if t is NotImplemented:
            return NotImplemented
        # Python floor division; z3 `div` is Euclidean: equal for positive divisors
        if isinstance(o, (int, _np.integer)):
            if o > 0:
                return SInt(s.t / t)
            raise Realize('floordiv by non-positive constant')
        Ctx.cur.assume(t > 0, 'positive divisor')
        return SInt(s.t / t)

    def __mod__(s, o):
        t = SInt.tz(o)
        if t is NotImplemented:
            return NotImplemented
        if isinstance(o, (int, _np.integer)):
            if o > 0:
                return SInt(s.t % t)
            raise Realize('mod by non-positive constant')
        Ctx.cur.assume(t > 0, 'positive divisor')
        return SInt(s.t % t)

    def __neg__(s):
        return SInt(-s.t)

    def __pos__(s):
        return s

    def __abs__(s):
        return SInt(z3.If(s.t >= 0, s.t, -s.t))

    def _c(s, o, f):
        t = SInt.tz(o)
        if t is NotImplemented:
            if isinstance(o, (float, _np.floating)):
                return SB(f(z3.ToReal(s.t), RV(o)))
            if isinstance(o, SV):
                return SB(f(z3.ToReal(s.t), o.t))
            return NotImplemented
        return SB(f(s.t, t))

    def __lt__(s, o):
        return s._c(o, lambda a, b: a < b)

    def __le__(s, o):
        return s._c(o, lambda a, b: a <= b)

    def __gt__(s, o):
        return s._c(o, lambda a, b: a > b)

    def __ge__(s, o):
        return s._c(o, lambda a, b: a >= b)

    def __eq__(s, o):
        if o is None:
            return False
        r = s._c(o, lambda a, b: a == b)
        return False if r is NotImplemented else r

    def __ne__(s, o):
        if o is None:
            return True
        r = s._c(o, lambda a, b: a != b)
        return True if r is NotImplemented else r

    __hash__ = None

    def __bool__(s):
        return bool(SB(s.t != 0))

    def concretize(s, lo=-64, hi=64):
        """solver-enumerated case split (each value is a path)"""
        t = z3.simplify(s.t)
        if z3.is_int_value(t):
            return t.as_long()
        for v in range(lo, hi + 1):
            if bool(SB(s.t == v)):
                return v
        raise Infeasible()

    def __index__(s):
        return s.concretize()

    def __int__(s):
        return s.concretize()

    def __float__(s):
        return float(s.concretize())

    def __repr__(s):
        return 'SInt(%s)' % str(s.t)[:60]


# --------------------------------------------------------------------------------------
# dual-mode helpers for specifications

def is_sym(x):
    return isinstance(x, (SV, SInt, SB))


def If(cond, a, b):
    """value-level if-then-else usable in both modes"""
    if isinstance(cond, SB):
        cond = cond.t
    if isinstance(cond, z3.BoolRef):
        sc = z3.simplify(cond)
        if z3.is_true(sc):
            return a
        if z3.is_false(sc):
            return b
        ta, tb = tz(a), tz(b)
        return SV(z3.If(cond, ta, tb), _sz(a) + _sz(b) + 2)
    return a if cond else b


def And(*cs):
    if any(isinstance(c, (SB, z3.BoolRef)) for c in cs):
        return SB(z3.And(*[SB._t(c) if not isinstance(c, z3.BoolRef) else c for c in cs]))
    return all(cs)


def Or(*cs):
    if any(isinstance(c, (SB, z3.BoolRef)) for c in cs):
        return SB(z3.Or(*[SB._t(c) if not isinstance(c, z3.BoolRef) else c for c in cs]))
    return any(cs)


def Not(c):
    if isinstance(c, SB):
        return SB(z3.Not(c.t))
    if isinstance(c, z3.BoolRef):
        return SB(z3.Not(c))
    return not c


def fn(name, x):
    """elementary function in both modes"""
    if isinstance(x, SV):
        return getattr(x, name)()
    if isinstance(x, SInt):
        return getattr(SV(z3.ToReal(x.t)), name)()
    if hasattr(x, name) and not isinstance(x, (float, int, _np.floating, _np.integer)):
        return getattr(x, name)()
    return float(getattr(_np, name)(float(x)))


def sqrt(x):
    return fn('sqrt', x)


def exp(x):
    return fn('exp', x)


def log(x):
    return fn('log', x)


def absv(x):
    return abs(x)


def explore(fnc, opts=None, maxpaths=20000):
    """Depth-first exploration; yields (ctx, result_or_exception) per feasible path."""
    work = [[]]
    n = 0
    cache = {}
    while work:
        pre = work.pop()
        c = Ctx('sym', pre, opts=opts)
        c.cache = cache
        Ctx.cur = c
        try:
            try:
                res = fnc(c)
                exc = None
            finally:
                c.unpatch()
        except Infeasible:
            work.extend(c.worklist)
            yield c, None, 'infeasible'
            continue
        except Realize as e:
            work.extend(c.worklist)
            yield c, e, 'realize'
            continue
        except Exception as e:  # noqa
            work.extend(c.worklist)
            yield c, e, 'exception'
            continue
        work.extend(c.worklist)
        n += 1
        yield c, res, 'ok'
        if n >= maxpaths:
            raise PathBound('more than %d paths' % maxpaths)
    Ctx.cur = None
