"""Contract stubs for compiled numerics (symbolic mode only; the concrete replay uses the real libraries).
Every stub states its contract; all are listed in the evidence `trusted_base`."""
import types

import numpy as _np
import scipy as _scipy
import scipy.linalg
import scipy.optimize
import scipy.stats
import scipy.integrate
import z3

from . import core
from .core import Ctx, SV, SInt, tz, Realize


def _symarr(x):
    a = _np.asarray(x)
    return a.dtype == object and any(isinstance(v, (SV, SInt)) for v in a.ravel())


def fresh_array(stem, shape):
    c = Ctx.cur
    out = _np.empty(shape, dtype=object)
    for idx in _np.ndindex(*shape) if shape else [()]:
        out[idx] = SV(c.newvar(stem))
    return out


# ------------------------------------------------------------------ scipy.linalg

def lstsq(A, b, *a, **k):
    """contract: X minimises |A X - b|^2, i.e. the normal equations A^T A X = A^T b hold"""
    if not (_symarr(A) or _symarr(b)):
        return _scipy.linalg.lstsq(_np.asarray(A, dtype=float), _np.asarray(b, dtype=float), *a, **k)
    A = _np.asarray(A, dtype=object)
    b = _np.asarray(b, dtype=object)
    n = A.shape[1]
    X = fresh_array('lstsq', (n,))
    r = A.dot(X) - b
    for j in range(n):
        Ctx.cur.fact(tz(A[:, j].dot(r)) == 0)
    return X, None, None, None


def solve(A, B, *a, **k):
    """contract: returns X with A X = B (A regular)"""
    if not (_symarr(A) or _symarr(B)):
        return _scipy.linalg.solve(_np.asarray(A, dtype=float), _np.asarray(B, dtype=float), *a, **k)
    A = _np.asarray(A, dtype=object)
    B = _np.asarray(B, dtype=object)
    X = fresh_array('solve', B.shape)
    R = A.dot(X) - B
    for v in R.ravel():
        Ctx.cur.fact(tz(v) == 0)
    Ctx.cur.solves = getattr(Ctx.cur, 'solves', []) + [(A, B, X)]
    return X


def scipy_shim(**over):
    """stand-in for the module global `scipy` of a pyerrors module"""
    la = types.SimpleNamespace(**{k: getattr(_scipy.linalg, k) for k in dir(_scipy.linalg) if not k.startswith('_')})
    la.lstsq = lstsq
    la.solve = solve
    ns = types.SimpleNamespace(linalg=la, optimize=_scipy.optimize, stats=_scipy.stats, integrate=_scipy.integrate, special=_scipy.special)
    for k, v in over.items():
        obj = ns
        parts = k.split('.')
        for p in parts[:-1]:
            sub = getattr(obj, p)
            if not isinstance(sub, types.SimpleNamespace):
                sub = types.SimpleNamespace(**{kk: getattr(sub, kk) for kk in dir(sub) if not kk.startswith('_')})
                setattr(obj, p, sub)
            obj = sub
        setattr(obj, parts[-1], v)
    return ns


def install_scipy(cx, *modnames, **over):
    import importlib
    if cx.mode != 'sym':
        return
    sh = scipy_shim(**over)
    for mn in modnames:
        mod = importlib.import_module(mn)
        if 'scipy' in vars(mod):
            cx.patch(mod, 'scipy', sh)
    return sh


# ------------------------------------------------------------------ numpy pieces with integer-symbolic input

def bincount(x, minlength=0):
    """np.bincount on symbolic integers: count_v = sum_k [x_k == v]"""
    xa = _np.asarray(x)
    if not (xa.dtype == object and any(isinstance(v, SInt) for v in xa.ravel())):
        return _np.bincount(x, minlength=minlength)
    out = _np.empty(minlength, dtype=object)
    for v in range(minlength):
        tot = z3.IntVal(0)
        for e in xa.ravel():
            tot = tot + z3.If(SInt.tz(e) == v, 1, 0)
        out[v] = SInt(tot)
    return out


# ------------------------------------------------------------------ scipy.optimize

def fsolve(func, x0, args=(), **kw):
    """contract: returns [r] with func(r, *args) = 0 (plus an optional branch selector the harness derives from the guess)"""
    c = Ctx.cur
    if not isinstance(args, tuple):
        args = (args,)
    probe = None
    sym = any(_symarr(a) or isinstance(a, (SV, SInt)) for a in args)
    if not sym:
        return _scipy.optimize.fsolve(func, x0, args=args, **kw)
    r = SV(c.newvar('root'))
    val = func(r, *args)
    val = _np.asarray(val, dtype=object).ravel()[0]
    c.fact(tz(val) == 0)
    sel = getattr(c, 'root_selector', None)
    if sel is not None:
        c.assume(sel(r))
    c.roots = getattr(c, 'roots', []) + [r]
    return _np.array([r], dtype=object)


def eigh(A, *a, **k):
    """numpy.linalg.eigh on a symbolic symmetric matrix (lower triangle): fresh eigenvalues w (ascending) and eigenvectors V with
    A_L V = V diag(w) and V^T V = 1 as contract facts"""
    from .npshim import _sa
    A = _np.asarray(A)
    if A.dtype != object:
        return _np.linalg.eigh(A, *a, **k)
    cx = Ctx.cur
    n = A.shape[0]
    AL = _np.array([[A[max(i, j), min(i, j)] for j in range(n)] for i in range(n)], dtype=object)
    w = fresh_array('eig', (n,))
    V = fresh_array('eig', (n, n))
    for c in range(n):
        lhs = AL.dot(V[:, c])
        for i in range(n):
            cx.fact(tz(lhs[i]) == tz(V[i, c] * w[c]))
        if c:
            cx.fact(tz(w[c - 1]) <= tz(w[c]))
        for l in range(c + 1):
            cx.fact(tz(V[:, l].dot(V[:, c])) == (1 if l == c else 0))
    return _sa(w), V
