"""numpy shim installed as the module-global `np` of the module under test (symbolic mode only).

Everything not listed here is numpy itself.  The differences:
  * float pre-allocation (`zeros`, `ones`, `zeros_like`, `empty`) becomes object pre-allocation, so symbolic
    values can be stored;
  * elementwise transcendental functions dispatch to the proxy methods (opaque functions);
  * predicates (`isnan`, `isfinite`, `isclose`...) know that a symbolic real is finite;
  * `finfo` returns eps/tiny as *symbols* constrained to their exact values (see DESIGN 2.1).
"""
import types

import numpy as _np
import z3

from . import core
from .core import SV, SInt, SB, Ctx, RV, Realize

_ELEMENTWISE = ['sqrt', 'exp', 'log', 'log10', 'sin', 'cos', 'tan', 'arcsin', 'arccos', 'arctan',
                'sinh', 'cosh', 'tanh', 'arcsinh', 'arccosh', 'arctanh']


def _is_symarr(x):
    return isinstance(x, _np.ndarray) and x.dtype == object


def _ew(name):
    real = getattr(_np, name)

    def f(x, *a, **k):
        if isinstance(x, (SV, SInt)):
            return core.fn(name, x)
        if isinstance(x, (list, tuple)):
            x = _np.asarray(x)
        if _is_symarr(x):
            out = _np.empty(x.shape, dtype=object)
            for idx, v in _np.ndenumerate(x):
                if isinstance(v, (SV, SInt)):
                    out[idx] = core.fn(name, v)
                elif hasattr(v, name):
                    out[idx] = getattr(v, name)()
                else:
                    out[idx] = float(real(float(v)))
            return out if x.shape != () else out[()]
        if hasattr(x, name) and not isinstance(x, (_np.ndarray, _np.generic, float, int)):
            return getattr(x, name)()
        return real(x, *a, **k)
    f.__name__ = name
    return f


_CMP = {_np.less: lambda a, b: a < b, _np.less_equal: lambda a, b: a <= b, _np.greater: lambda a, b: a > b,
        _np.greater_equal: lambda a, b: a >= b, _np.equal: lambda a, b: a == b, _np.not_equal: lambda a, b: a != b}


class SymArray(_np.ndarray):
    """object ndarray whose comparisons and masked assignments stay symbolic:
    `a <= c` gives an object array of SB (no bool() per element), `a[mask] = v` becomes an elementwise if-then-else.
    Without this, `x[x <= 0.5] = c` forks 2^len paths."""

    def __array_ufunc__(self, ufunc, method, *inputs, out=None, **kw):
        if method == '__call__' and ufunc in _CMP and out is None:
            arrs = [_np.asarray(i) if isinstance(i, _np.ndarray) else i for i in inputs]
            if any(isinstance(a, _np.ndarray) and a.dtype == object for a in arrs):
                ba = _np.broadcast_arrays(*[_np.asarray(a, dtype=object) if not isinstance(a, (SV, SInt)) else _np.array(a, dtype=object) for a in arrs])
                res = _np.empty(ba[0].shape, dtype=object)
                symbolic = False
                f = _CMP[ufunc]
                for idx in _np.ndindex(ba[0].shape):
                    r = f(ba[0][idx], ba[1][idx])
                    symbolic |= isinstance(r, SB)
                    res[idx] = r
                if not symbolic:
                    return res.astype(bool)
                return res.view(SymArray)
        ins = [i.view(_np.ndarray) if isinstance(i, SymArray) else i for i in inputs]
        if out is not None:
            kw['out'] = tuple(o.view(_np.ndarray) if isinstance(o, SymArray) else o for o in out)
        r = getattr(ufunc, method)(*ins, **kw)
        if isinstance(r, _np.ndarray) and r.dtype == object and out is None:
            return r.view(SymArray)
        if out is not None and isinstance(r, _np.ndarray):
            return out[0]
        return r

    def astype(self, dtype, *a, **k):
        # symbolic entries stand for floats already: a cast to float keeps them (numpy would call float() on each entry)
        if self.dtype == object and dtype in (float, _np.float64, 'float', 'float64', 'd') and any(isinstance(v, (SV, SInt)) for v in self.ravel()):
            return self.copy()
        return _np.ndarray.astype(self, dtype, *a, **k)

    def __setitem__(self, key, val):
        if isinstance(key, _np.ndarray) and key.dtype == object and key.shape == self.shape and any(isinstance(k, SB) for k in key.ravel()):
            base = self.view(_np.ndarray)
            vb = _np.broadcast_to(_np.asarray(val, dtype=object), self.shape) if isinstance(val, _np.ndarray) else None
            for idx in _np.ndindex(self.shape):
                v = vb[idx] if vb is not None else val
                k = key[idx]
                if isinstance(k, SB):
                    base[idx] = core.If(k, v, base[idx])
                elif k:
                    base[idx] = v
            return
        _np.ndarray.__setitem__(self, key, val)

    def __getitem__(self, key):
        if isinstance(key, _np.ndarray) and key.dtype == object and any(isinstance(k, SB) for k in key.ravel()):
            raise Realize('selection by a symbolic mask')
        r = _np.ndarray.__getitem__(self, key)
        return r


def _sa(a):
    if isinstance(a, _np.ndarray) and a.dtype == object and not isinstance(a, SymArray) and a.ndim > 0:
        return a.view(SymArray)
    return a


class _FInfo:
    def __init__(self, real):
        c = Ctx.cur
        self._real = real
        for nm in ('eps', 'tiny'):
            key = ('finfo', nm)
            if key not in c.memo:
                v = z3.Real('FINFO_' + nm)
                c.memo[key] = v
                c.pc.append(v == RV(core.Fraction(float(getattr(real, nm)))))
            setattr(self, nm, SV(c.memo[key]))

    def __getattr__(self, k):
        return getattr(self._real, k)


class _Spectrum:
    """rfft(x, n) of a symbolic real sequence, kept as the zero-padded / truncated sequence itself: the only thing the code under analysis does
    with it is |.|^2 followed by irfft, which is the circular autocorrelation of that sequence (correlation theorem; FFT numerics are trusted)"""
    def __init__(self, x, n, stage='rfft'):
        self.x, self.n, self.stage = x, n, stage

    def __abs__(self):
        if self.stage != 'rfft':
            raise Realize('abs of a %s spectrum' % self.stage)
        return _Spectrum(self.x, self.n, 'abs')

    def __pow__(self, k):
        if self.stage != 'abs' or k != 2:
            raise Realize('only |rfft|**2 is modelled')
        return _Spectrum(self.x, self.n, 'power')


def _rfft(a, n=None, *args, **kw):
    arr = _np.asarray(a)
    if arr.dtype != object or args or kw:
        return _np.fft.rfft(a, n, *args, **kw)
    if arr.ndim != 1:
        raise Realize('rfft of a %d-d symbolic array' % arr.ndim)
    n = len(arr) if n is None else int(n)
    x = [arr[i] if i < len(arr) else 0 for i in range(n)]
    return _Spectrum(x, n)


def _irfft(a, n=None, *args, **kw):
    if isinstance(a, _np.ndarray) and a.dtype == object and a.shape == ():
        a = a[()]
    if not isinstance(a, _Spectrum):
        return _np.fft.irfft(a, n, *args, **kw)
    if a.stage != 'power' or args or kw:
        raise Realize('irfft of a %s spectrum' % a.stage)
    P = a.n
    m = P // 2 + 1                      # number of rfft outputs
    nout = 2 * (m - 1) if n is None else int(n)
    if nout != P:
        # odd transform length read back with the default (even) length: not the autocorrelation any more
        raise Realize('irfft output length %d for a length-%d transform is not modelled' % (nout, P))
    out = _np.empty(P, dtype=object)
    for t in range(P):
        tot = 0
        for i in range(P):
            tot = tot + a.x[i] * a.x[(i + t) % P]
        out[t] = tot
    return _sa(out)


class NPShim(types.ModuleType):
    def __init__(self, base=_np, sym_finfo=True):
        super().__init__('np_shim')
        self.__dict__['_base'] = base
        self.__dict__['_sym_finfo'] = sym_finfo
        for n in _ELEMENTWISE:
            self.__dict__[n] = _ew(n)

    def __getattr__(self, k):
        return getattr(self.__dict__['_base'], k)

    @property
    def fft(self):
        ns = types.SimpleNamespace(**{k: getattr(_np.fft, k) for k in dir(_np.fft) if not k.startswith('_')})
        ns.rfft = _rfft
        ns.irfft = _irfft
        return ns

    @property
    def linalg(self):
        la = types.SimpleNamespace(**{k: getattr(_np.linalg, k) for k in dir(_np.linalg) if not k.startswith('_')})
        real_eigh = _np.linalg.eigh

        def eigh(m, *a, **k):
            # only used by pyerrors.covariance for a warning about negative eigenvalues: stubbed (no claim on PSD)
            ma = _np.asarray(m)
            if ma.dtype == object:
                return _np.zeros(len(ma)), None
            return real_eigh(m, *a, **k)
        la.eigh = eigh
        over = self.__dict__.get('_linalg_over') or {}
        for k, v in over.items():
            setattr(la, k, v)
        return la

    # ---- allocation
    @staticmethod
    def _obj(shape, fill):
        a = _np.empty(shape, dtype=object)
        a[...] = fill
        return _sa(a)

    @staticmethod
    def cumsum(a, *args, **kw):
        return _sa(_np.cumsum(a, *args, **kw))

    @staticmethod
    def concatenate(a, *args, **kw):
        return _sa(_np.concatenate(a, *args, **kw))

    @staticmethod
    def array(a, *args, **kw):
        return _sa(_np.array(a, *args, **kw))

    def zeros(self, shape, dtype=float, **kw):
        if dtype in (float, _np.float64, None):
            return self._obj(shape, 0)
        return _np.zeros(shape, dtype=dtype, **kw)

    def ones(self, shape, dtype=float, **kw):
        if dtype in (float, _np.float64, None):
            return self._obj(shape, 1)
        return _np.ones(shape, dtype=dtype, **kw)

    def empty(self, shape, dtype=float, **kw):
        if dtype in (float, _np.float64, None):
            return self._obj(shape, 0)
        return _np.empty(shape, dtype=dtype, **kw)

    def zeros_like(self, a, dtype=None, **kw):
        a = _np.asarray(a)
        if dtype is None and a.dtype.kind in 'fO':
            return self._obj(a.shape, 0)
        return _np.zeros_like(a, dtype=dtype, **kw)

    def identity(self, n, dtype=None):
        return _np.identity(n, dtype=dtype)

    def finfo(self, t):
        if self.__dict__['_sym_finfo'] and Ctx.cur is not None and Ctx.cur.mode == 'sym':
            return _FInfo(_np.finfo(t))
        return _np.finfo(t)

    # ---- predicates
    @staticmethod
    def isfinite(x):
        if isinstance(x, (SV, SInt)):
            return True
        if _is_symarr(x):
            return _np.array([NPShim.isfinite(v) for v in x.ravel()], dtype=bool).reshape(x.shape)
        return _np.isfinite(x)

    @staticmethod
    def isnan(x):
        if isinstance(x, (SV, SInt)):
            return False
        if _is_symarr(x):
            return _np.array([bool(NPShim.isnan(v)) if not isinstance(v, (SV, SInt)) else False for v in x.ravel()], dtype=bool).reshape(x.shape)
        try:
            return _np.isnan(x)
        except TypeError:
            return False

    @staticmethod
    def isclose(a, b, rtol=1e-05, atol=1e-08, **kw):
        if isinstance(a, (SV, SInt)) or isinstance(b, (SV, SInt)):
            ta, tb = core.tz(a), core.tz(b)
            if ta is not NotImplemented and tb is not NotImplemented and core.const_of(core.canon(ta - tb)) == 0:
                return True     # identical polynomials
            return abs(a - b) <= atol + rtol * abs(b)
        if _is_symarr(a) or _is_symarr(b):
            a, b = _np.broadcast_arrays(_np.asarray(a, dtype=object), _np.asarray(b, dtype=object))
            out = _np.empty(a.shape, dtype=object)
            for idx in _np.ndindex(a.shape):
                out[idx] = NPShim.isclose(a[idx], b[idx], rtol, atol)
            return out
        return _np.isclose(a, b, rtol, atol, **kw)

    @staticmethod
    def allclose(a, b, rtol=1e-05, atol=1e-08, **kw):
        r = NPShim.isclose(a, b, rtol, atol)
        if isinstance(r, _np.ndarray) and r.dtype == object:
            return all(bool(x) for x in r.ravel())
        if isinstance(r, SB):
            return bool(r)
        return bool(_np.all(r))

    @staticmethod
    def all(x, *a, **k):
        if _is_symarr(_np.asarray(x)) and not a and not k:
            return all(bool(v) for v in _np.asarray(x).ravel())
        if isinstance(x, SB):
            return bool(x)
        return _np.all(x, *a, **k)

    @staticmethod
    def any(x, *a, **k):
        if _is_symarr(_np.asarray(x)) and not a and not k:
            return any(bool(v) for v in _np.asarray(x).ravel())
        if isinstance(x, SB):
            return bool(x)
        return _np.any(x, *a, **k)

    @staticmethod
    def abs(x, *a, **k):
        if isinstance(x, (SV, SInt)):
            return abs(x)
        return _np.abs(x, *a, **k)
    absolute = abs

    @staticmethod
    def floor(x):
        if isinstance(x, (SV,)):
            raise Realize('floor of symbolic')
        return _np.floor(x)

    @staticmethod
    def real(x):
        if isinstance(x, (SV, SInt)):
            return x
        if _is_symarr(x):
            return _np.array([getattr(v, 'real', v) for v in x.ravel()], dtype=object).reshape(x.shape)
        return _np.real(x)

    @staticmethod
    def imag(x):
        if isinstance(x, (SV, SInt)):
            return 0
        if _is_symarr(x):
            return _np.array([getattr(v, 'imag', 0) for v in x.ravel()], dtype=object).reshape(x.shape)
        return _np.imag(x)

    @staticmethod
    def max(x, *a, **k):
        xa = _np.asarray(x)
        if _is_symarr(xa) and any(isinstance(v, (SV, SInt)) for v in xa.ravel()):
            it = list(xa.ravel())
            m = it[0]
            for v in it[1:]:
                m = core.If(v > m, v, m)
            return m
        return _np.max(x, *a, **k)

    @staticmethod
    def min(x, *a, **k):
        xa = _np.asarray(x)
        if _is_symarr(xa) and any(isinstance(v, (SV, SInt)) for v in xa.ravel()):
            it = list(xa.ravel())
            m = it[0]
            for v in it[1:]:
                m = core.If(v < m, v, m)
            return m
        return _np.min(x, *a, **k)

    @staticmethod
    def bincount(x, minlength=0, **k):
        from .contracts import bincount
        return bincount(x, minlength=minlength)

    @staticmethod
    def vectorize(f, *a, **vkw):
        inner = _np.vectorize(f, *a, **vkw)

        def g(x, *aa, **kk):
            xa = _np.asarray(x)
            if xa.dtype == object and xa.size > 0:
                out = _np.empty(xa.shape, dtype=object)
                for idx, v in _np.ndenumerate(xa):
                    out[idx] = f(v, *aa, **kk)
                first = out.ravel()[0]
                if isinstance(first, tuple):
                    # several outputs: numpy.vectorize returns a tuple of arrays
                    outs = []
                    for k in range(len(first)):
                        o = _np.empty(xa.shape, dtype=object)
                        for idx in _np.ndindex(xa.shape):
                            o[idx] = out[idx][k]
                        outs.append(o)
                    return tuple(outs)
                # numpy.vectorize infers the output dtype from the FIRST result: a number (or a symbolic real, which stands for a float) first
                # makes a float array and every later result is converted with float() - an observable silently becomes its central value
                def isnum(v):
                    return isinstance(v, (float, int, _np.floating, _np.integer)) and not isinstance(v, bool)
                if out.size and all(isnum(v) for v in out.ravel()):
                    return out.astype(type(out.ravel()[0]))
                if out.size and isinstance(first, (int, _np.integer)) and not isinstance(first, bool) and not vkw.get('otypes'):
                    # integer first result: numpy makes an integer array and truncates every later result
                    for idx, v in _np.ndenumerate(out):
                        if isinstance(v, (int, _np.integer)):
                            continue
                        if hasattr(v, 'value') and not isinstance(v, SV):
                            v = v.value
                        if isinstance(v, SV):
                            out[idx] = core.fn('trunc', v)      # opaque: the truncated value is some other number
                        elif isinstance(v, (complex, _np.complexfloating)):
                            raise TypeError("int() argument must be a string, a bytes-like object or a real number, not 'complex'")
                        else:
                            out[idx] = int(v)
                    return _sa(out)
                if out.size and (isnum(first) or isinstance(first, SV)) and not vkw.get('otypes'):
                    for idx, v in _np.ndenumerate(out):
                        if isnum(v) or isinstance(v, SV):
                            continue
                        if isinstance(v, (complex, _np.complexfloating)):
                            raise TypeError("float() argument must be a string or a real number, not 'complex'")
                        try:
                            out[idx] = float(v)
                        except Realize:
                            if not hasattr(v, 'value'):
                                raise
                            out[idx] = v.value          # Obs.__float__ is float(self.value) (decided in C19 views); the symbolic value stands for it
                return _sa(out)
            return inner(x, *aa, **kk)
        return g
