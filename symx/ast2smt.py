"""ast2smt: small Python-AST -> z3 translator for integer / real / string kernels read from /repo's current source.
Used where proxies cannot go (hashing into `set`, `range()` of symbolic ints, string comparisons)."""
import ast
import inspect
import textwrap

import z3


class Unsupported(Exception):
    pass


def fdef(obj, name=None):
    """ast.FunctionDef of a function object (or of `name` inside module `obj`)"""
    if name is None:
        src = textwrap.dedent(inspect.getsource(obj))
        tree = ast.parse(src)
        return next(n for n in ast.walk(tree) if isinstance(n, (ast.FunctionDef, ast.Lambda)))
    fn = getattr(obj, name)
    fn = getattr(fn, '__wrapped__', fn)
    try:
        src = textwrap.dedent(inspect.getsource(fn))
    except (OSError, TypeError):
        src = inspect.getsource(obj)
    for text in (src, inspect.getsource(obj)):
        tree = ast.parse(text)
        for n in ast.walk(tree):
            if isinstance(n, ast.FunctionDef) and n.name == name:
                return n
    raise Unsupported('no def %s' % name)


def _is_int(x):
    return isinstance(x, int) or (isinstance(x, z3.ExprRef) and z3.is_int(x))


def module_helpers(mod):
    """FunctionDef nodes of the module-level functions of a module (for inlining helper calls)"""
    out = {}
    for name, obj in vars(mod).items():
        if inspect.isfunction(obj) and getattr(obj, '__module__', None) == mod.__name__:
            try:
                out[name] = fdef(mod, name)
            except Exception:
                pass
    return out


class T:
    """expression translator; env maps names to z3 terms / Python constants / callables"""

    def __init__(self, env):
        self.env = dict(env)
        self.helpers = {}

    def ev(self, n):
        if isinstance(n, ast.Constant):
            if isinstance(n.value, str):
                return z3.StringVal(n.value)
            return n.value
        if isinstance(n, ast.Name):
            if n.id not in self.env:
                raise Unsupported('name ' + n.id)
            return self.env[n.id]
        if isinstance(n, ast.Tuple):
            return tuple(self.ev(e) for e in n.elts)
        if isinstance(n, ast.BinOp):
            a, b = self.ev(n.left), self.ev(n.right)
            if isinstance(n.op, ast.Add):
                return a + b
            if isinstance(n.op, ast.Sub):
                return a - b
            if isinstance(n.op, ast.Mult):
                return a * b
            if isinstance(n.op, ast.Div):
                if _is_int(a) and not isinstance(a, int):
                    a = z3.ToReal(a)
                if _is_int(b) and not isinstance(b, int):
                    b = z3.ToReal(b)
                if isinstance(a, int) and isinstance(b, int):
                    return z3.RealVal(a) / b
                return a / b
            if isinstance(n.op, ast.Mod):
                return a % b       # Python semantics for positive divisors
            if isinstance(n.op, ast.FloorDiv):
                return a / b       # z3 Int div = floor for positive divisors
            raise Unsupported(ast.dump(n.op))
        if isinstance(n, ast.UnaryOp):
            v = self.ev(n.operand)
            if isinstance(n.op, ast.Not):
                return z3.Not(v)
            if isinstance(n.op, ast.USub):
                return -v
            if isinstance(n.op, ast.UAdd):
                return v
        if isinstance(n, ast.BoolOp):
            vs = [self.ev(v) for v in n.values]
            return z3.And(*vs) if isinstance(n.op, ast.And) else z3.Or(*vs)
        if isinstance(n, ast.IfExp):
            return z3.If(self.ev(n.test), self.ev(n.body), self.ev(n.orelse))
        if isinstance(n, ast.Call):
            if isinstance(n.func, ast.Name):
                fn = n.func.id
                args = [self.ev(x) for x in n.args]
                if fn == 'set':
                    return ('set', args[0])
                if fn in ('min', 'max'):
                    items = list(args[0]) if len(args) == 1 and isinstance(args[0], (tuple, list)) else list(args)
                    cur = items[0]
                    for it in items[1:]:
                        cur = z3.If(it <= cur, it, cur) if fn == 'min' else z3.If(it >= cur, it, cur)
                    return cur
                if fn == 'abs':
                    return z3.If(args[0] >= 0, args[0], -args[0])
                if fn == 'int':
                    a = args[0]
                    if _is_int(a):
                        return a
                    return z3.If(a >= 0, z3.ToInt(a), -z3.ToInt(-a))   # truncation toward zero
                if fn == 'len':
                    return len(args[0])
                if fn in self.env and callable(self.env[fn]):
                    return self.env[fn](*args)
            if isinstance(n.func, ast.Attribute):
                base = self.ev(n.func.value)
                f = getattr(base, n.func.attr)
                return f(*[self.ev(x) for x in n.args])
            raise Unsupported(ast.dump(n))
        if isinstance(n, ast.Attribute):
            return getattr(self.ev(n.value), n.attr)
        if isinstance(n, ast.Subscript):
            return self.ev(n.value)[self.ev(n.slice)]
        if isinstance(n, ast.Compare) and len(n.ops) == 1:
            a, b = self.ev(n.left), self.ev(n.comparators[0])
            op = n.ops[0]
            if isinstance(a, tuple) and a and a[0] == 'set':
                if not isinstance(op, ast.LtE):
                    raise Unsupported('set comparison')
                return z3.And(*[z3.Or(*[x == y for y in b[1]]) for x in a[1]])
            table = {ast.Lt: lambda: a < b, ast.LtE: lambda: a <= b, ast.Gt: lambda: a > b, ast.GtE: lambda: a >= b,
                     ast.Eq: lambda: a == b, ast.NotEq: lambda: a != b}
            return table[type(op)]()
        raise Unsupported(ast.dump(n))


def strip_doc(body):
    return [b for b in body if not (isinstance(b, ast.Expr) and isinstance(b.value, ast.Constant))]


def exec_straight(tr, body):
    """Symbolically executes a statement list made of assignments, `if ...: raise`, if/elif chains and `return`.
    Returns (raise_condition, [(guard, return_value)])."""
    raises = z3.BoolVal(False)
    returns = []

    def run(stmts, guard):
        nonlocal raises
        for st in stmts:
            if isinstance(st, ast.Assign) and len(st.targets) == 1 and isinstance(st.targets[0], ast.Name):
                tr.env[st.targets[0].id] = tr.ev(st.value)
            elif isinstance(st, ast.Raise):
                raises = z3.Or(raises, guard)
                return False
            elif isinstance(st, ast.Return):
                returns.append((guard, tr.ev(st.value)))
                return False
            elif isinstance(st, ast.If):
                c = tr.ev(st.test)
                env0 = dict(tr.env)
                cont_t = run(st.body, z3.And(guard, c))
                env_t = tr.env
                tr.env = dict(env0)
                cont_f = run(st.orelse, z3.And(guard, z3.Not(c))) if st.orelse else True
                env_f = tr.env
                # merge assignments
                merged = dict(env0)
                for k in set(env_t) | set(env_f):
                    vt, vf = env_t.get(k), env_f.get(k)
                    if vt is vf:
                        merged[k] = vt
                    elif not cont_t:
                        merged[k] = vf
                    elif not cont_f:
                        merged[k] = vt
                    elif isinstance(vt, z3.ExprRef) or isinstance(vf, z3.ExprRef):
                        merged[k] = z3.If(c, vt, vf)
                    else:
                        merged[k] = ('phi', c, vt, vf)
                tr.env = merged
                if not cont_t and not cont_f:
                    return False
                if not cont_t:
                    guard = z3.And(guard, z3.Not(c))
                elif not cont_f:
                    guard = z3.And(guard, c)
            elif isinstance(st, ast.Expr):
                # a call of a module-level helper used as a statement (e.g. an argument check): inlined, its raise condition is merged
                call = st.value
                if isinstance(call, ast.Call) and isinstance(call.func, ast.Name) and call.func.id in getattr(tr, 'helpers', {}):
                    callee = tr.helpers[call.func.id]
                    cargs = []
                    for a in call.args:
                        if isinstance(a, ast.Starred):
                            cargs.extend(list(tr.ev(a.value)))
                        else:
                            cargs.append(tr.ev(a))
                    sub = T({})
                    sub.helpers = tr.helpers
                    params = callee.args
                    names = [p.arg for p in params.args]
                    for nme, val in zip(names, cargs):
                        sub.env[nme] = val
                    if params.vararg is not None:
                        sub.env[params.vararg.arg] = tuple(cargs[len(names):])
                    r2, _ = exec_straight(sub, strip_doc(callee.body))
                    raises = z3.Or(raises, z3.And(guard, r2))
                    guard = z3.And(guard, z3.Not(r2))
                continue
            else:
                raise Unsupported(ast.dump(st)[:200])
        return True
    run(body, z3.BoolVal(True))
    return raises, returns
