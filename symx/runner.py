"""Job runner: explores a harness symbolically, replays counterexamples concretely, aggregates evidence."""
import importlib
import json
import os
import re
import sys
import time
import traceback
import warnings

from . import core
from .core import Ctx, explore, Realize, Infeasible, PathBound, ReplayInvalid, str_to_float

VERIF = os.path.dirname(os.path.dirname(os.path.abspath(__file__)))
REPO = '/repo'

EXIT_OK, EXIT_VIOLATION, EXIT_INCONCLUSIVE = 0, 1, 3


def prop_module(pid):
    return importlib.import_module('props.' + pid.lower())


# --------------------------------------------------------------------------------------
# function recording

class FuncRecorder:
    def __init__(self):
        self.seen = set()

    def __call__(self, frame, event, arg):
        if event == 'call':
            co = frame.f_code
            fnm = co.co_filename
            if fnm.startswith(REPO + '/pyerrors'):
                self.seen.add('%s:%s' % (fnm[len(REPO) + 1:], getattr(co, 'co_qualname', co.co_name)))

    def start(self):
        sys.setprofile(self)

    def stop(self):
        sys.setprofile(None)


# --------------------------------------------------------------------------------------
# concrete replay

def replay(pid, hname, params, values, opts=None):
    """Run the harness on floats against the unstubbed code. Returns dict(failed=[...], error=..., invalid=bool)."""
    mod = prop_module(pid)
    h = mod.HARNESSES[hname]
    fv = {k: (v if k.startswith('xh_') else str_to_float(v)) for k, v in values.items()}     # xh_*: CrossHair counterexamples (call strings)
    cx = Ctx('conc', values=fv, opts=opts)
    Ctx.cur = cx
    out = dict(failed=[], error=None, invalid=False)
    try:
        with warnings.catch_warnings():
            warnings.simplefilter('ignore')
            try:
                h(cx, **params)
            finally:
                cx.unpatch()
    except ReplayInvalid as e:
        out['invalid'] = True
        out['error'] = 'assumption does not hold in floats: %s' % e
    except Exception as e:  # noqa
        out['error'] = '%s: %s' % (type(e).__name__, e)
        out['trace'] = traceback.format_exc(limit=8)
    finally:
        Ctx.cur = None
    out['failed'] = cx.failed
    return out


def replay_fresh(pid, hname, params, values, opts=None):
    """the same replay in a fresh interpreter: class-level state the library keeps (and the symbolic runs of this process may have left
    symbolic objects in) cannot leak into it. The in-memory canary mutant, if any, is applied there as well."""
    import subprocess
    o = {k: v for k, v in (opts or {}).items() if isinstance(v, (int, float, str, bool, type(None)))}
    req = json.dumps(dict(pid=pid, harness=hname, params=params, values=values, opts=o))
    try:
        p = subprocess.run([sys.executable, '-m', 'symx.runner'], input=req, capture_output=True, text=True, timeout=600,
                           env=dict(os.environ, PYTHONDONTWRITEBYTECODE='1'), cwd=VERIF)
        for line in reversed(p.stdout.splitlines()):
            if line.startswith('{"failed"'):
                return json.loads(line)
        return dict(failed=[], error='fresh replay produced no result: %s' % (p.stderr[-300:],), invalid=True)
    except Exception as e:  # noqa
        return dict(failed=[], error='fresh replay failed: %s' % e, invalid=True)


def _replay_main():
    req = json.loads(sys.stdin.read())
    undo = None
    if req['opts'].get('canary'):
        undo = prop_module(req['pid']).apply_canary(req['opts']['canary'])
    try:
        out = replay(req['pid'], req['harness'], req['params'], req['values'], req['opts'])
    finally:
        if undo is not None:
            undo()
    out.pop('trace', None)
    print(json.dumps(dict(failed=out['failed'], error=out['error'], invalid=out['invalid']), default=str))


# --------------------------------------------------------------------------------------
# one job = one harness instance, all paths

def run_job(job):
    pid, hname, params, opts = job['pid'], job['harness'], job['params'], job.get('opts') or {}
    mod = prop_module(pid)
    h = mod.HARNESSES[hname]
    t0 = time.time()
    R = dict(pid=pid, harness=hname, params=params, paths=0, infeasible=0, obligations=0, discharged=0,
             ground=0, nontrivial=0, violations=[], inconclusive=[], solver_s=0.0, queries=0, funcs=[],
             samples=[], assumed_feasible=0, tiers={}, domain_assumptions=0, replays=0, expected_exc=0, max_query_s=0.0, slowest='')
    rec = FuncRecorder()
    first = [True]
    maxpaths = opts.get('maxpaths', 4000)
    max_replays = opts.get('max_replays', 4)
    expected = tuple(getattr(mod, 'EXPECTED_EXCEPTIONS', {}).get(hname, ()))

    def body(c):
        if first[0]:
            rec.start()
        try:
            return h(c, **params)
        finally:
            if first[0]:
                rec.stop()
                first[0] = False

    def try_replay(cx, label, model, kind, detail=''):
        """returns True if a violation was confirmed"""
        for v in R['violations']:
            if v['label'] == label and v['kind'] == kind:
                # same call site already confirmed on another path of this job
                R['violations'].append(dict(v, path=''.join('TF'[not x] for x in cx.decisions[:cx.pos]), duplicate=True))
                return True
        if R['replays'] >= max_replays:
            R['inconclusive'].append(dict(label=label, why='replay budget exhausted (%s)' % kind))
            return False
        R['replays'] += 1
        model0 = dict(model)
        rp = replay(pid, hname, params, model, opts)
        # inputs that the counterexample leaves free get generic values; try a few different ones
        for salt in range(1, 1 + int(opts.get('replay_retries', 4))):
            if rp['failed'] or (rp['error'] and not rp['invalid'] and kind == 'exception'):
                break
            model = dict(model, __salt__=salt)
            rp = replay(pid, hname, params, model, opts)
        # solver models tend to be degenerate (many zeros); a generic defect also shows on generic inputs: the replay decides
        for salt in (0, 2, 5, 6):
            if rp['failed'] or kind not in ('sat', 'unknown', 'ground-fail'):
                break
            # structural inputs (e.g. the cut position of a file) are kept, the data become generic
            model = dict({k: model0[k] for k in opts.get('replay_keep', ()) if k in model0}, __salt__=salt)
            rp = replay(pid, hname, params, model, opts)
        if not rp['failed'] and rp['error'] and kind != 'exception':
            # the in-process replay broke down instead of comparing (state left behind by the symbolic runs?): once more in a fresh interpreter
            for m in (model0, dict(__salt__=0)):
                rp2 = replay_fresh(pid, hname, params, m, opts)
                if rp2['failed']:
                    rp, model = rp2, m
                    break
        if kind == 'exception' and rp['error'] and not rp['failed'] and rp['error'].split(':')[0] != detail.split(':')[0]:
            R['inconclusive'].append(dict(label=label, why='symbolic path raised %s but the concrete replay raised %s' % (detail[:200], rp['error'][:200])))
            return False
        if rp['failed'] or (rp['error'] and not rp['invalid'] and kind in ('exception',)
                            and not _is_expected(rp['error'], expected)):
            R['violations'].append(dict(harness=hname, params=params, label=label, kind=kind, detail=detail,
                                        values=model, failed=rp['failed'][:6], error=rp['error'],
                                        path=''.join('TF'[not x] for x in cx.decisions[:cx.pos])))
            return True
        R['inconclusive'].append(dict(label=label, why='%s not reproduced in concrete replay (%s)' % (kind, rp['error'] or 'no failing comparison'),
                                      detail=detail, values=model))
        return False

    import signal

    class JobTimeout(BaseException):
        pass

    def _alarm(*a):
        raise JobTimeout()
    try:
        signal.signal(signal.SIGALRM, _alarm)
        signal.alarm(int(opts.get('job_timeout', 1500)))
    except Exception:
        pass
    undo_canary = None
    if opts.get('canary'):
        from .mutate import Skipped
        try:
            undo_canary = mod.apply_canary(opts['canary'])
        except Skipped as e:
            R['inconclusive'].append(dict(label='canary-skipped', why=str(e)))
            R['wall_s'] = 0.0
            return R
    try:
        with warnings.catch_warnings():
            warnings.simplefilter('ignore')
            for cx, out, status in explore(body, opts, maxpaths):
                R['solver_s'] += cx.tq
                R['queries'] += cx.nq
                R['assumed_feasible'] += cx.assumed_feasible
                if status == 'infeasible':
                    R['infeasible'] += 1
                    continue
                if status in ('exception', 'realize'):
                    if status == 'exception' and isinstance(out, expected):
                        # declared outcome; the harness could not continue on this path
                        R['expected_exc'] += 1
                        R['paths'] += 1
                        _collect(R, cx)
                        continue
                    r = cx.check()
                    if r == 'unsat':
                        R['infeasible'] += 1
                        continue
                    detail = '%s: %s' % (type(out).__name__, out)
                    tb = ''.join(traceback.format_exception(type(out), out, out.__traceback__, limit=-6))
                    if r == 'sat':
                        model = cx.model_values()
                        if not try_replay(cx, 'path-' + status, model, status, detail):
                            R['inconclusive'][-1]['trace'] = tb
                    else:
                        R['inconclusive'].append(dict(label='path-' + status, why='path feasibility unknown', detail=detail, trace=tb))
                    R['paths'] += 1
                    _collect(R, cx)
                    continue
                R['paths'] += 1
                R['domain_assumptions'] += len(cx.domain)
                _collect(R, cx, replay_cb=try_replay)
                if opts.get('fail_fast') and R['violations']:
                    break
    except PathBound as e:
        R['inconclusive'].append(dict(label='path-bound', why=str(e)))
    except JobTimeout:
        R['inconclusive'].append(dict(label='job-timeout', why='job exceeded %s s' % opts.get('job_timeout', 1500)))
    except Exception as e:  # noqa: harness/engine error
        R['inconclusive'].append(dict(label='engine-error', why='%s: %s' % (type(e).__name__, e), trace=traceback.format_exc(limit=10)))
    finally:
        try:
            signal.alarm(0)
        except Exception:
            pass
        Ctx.cur = None
        if undo_canary is not None:
            undo_canary()
    if R['paths'] == 0 and not R['inconclusive']:
        R['inconclusive'].append(dict(label='vacuous', why='no feasible path reached the end of the harness'))
    R['funcs'] = sorted(rec.seen)
    R['wall_s'] = round(time.time() - t0, 3)
    return R


def _is_expected(errstr, expected):
    return any(errstr.startswith(e.__name__ + ':') for e in expected)


def _collect(R, cx, replay_cb=None):
    nontriv = 0
    for ob in cx.obligations:
        if ob.get('cached'):
            continue
        R['obligations'] += 1
        if ob.get('t', 0) and ob['t'] > R['max_query_s']:
            R['max_query_s'] = ob['t']
            R['slowest'] = ob['label']
        res = ob['res']
        if ob.get('ground'):
            R['ground'] += 1
        else:
            nontriv += 1
            R['tiers'][str(ob.get('tier', 0))] = R['tiers'].get(str(ob.get('tier', 0)), 0) + 1
        if res in ('unsat', 'ground-ok'):
            R['discharged'] += 1
            if 'smt' in ob and len(R['samples']) < 2:
                R['samples'].append(dict(harness=R['harness'], label=ob['label'], path=ob['path'], negated_goal=ob['smt'], result=res))
            continue
        if res == 'skipped':
            R['inconclusive'].append(dict(label=ob['label'], why='not evaluated'))
            continue
        if replay_cb is None:
            R['inconclusive'].append(dict(label=ob['label'], why='obligation %s on a path that ended abnormally' % res))
            continue
        if res == 'sat':
            replay_cb(cx, ob['label'], ob['model'], 'sat', ob.get('detail', ''))
        elif res == 'ground-fail':
            r = cx.check()
            if r == 'sat':
                replay_cb(cx, ob['label'], cx.model_values(), 'ground-fail', ob.get('detail', ''))
            elif r == 'unsat':
                R['discharged'] += 1   # vacuous: path infeasible at the highest tier
            else:
                R['inconclusive'].append(dict(label=ob['label'], why='ground failure on a path of unknown feasibility', detail=ob.get('detail', '')))
        else:
            # unknown: no model; generic inputs are tried as candidates (the replay decides), otherwise inconclusive
            n0 = len(R['inconclusive'])
            if not replay_cb(cx, ob['label'], {}, 'unknown', ob.get('detail', '')):
                del R['inconclusive'][n0:]
                R['inconclusive'].append(dict(label=ob['label'], why='solver answered unknown', t=ob.get('t')))
    if nontriv:
        R['nontrivial'] += 1


# --------------------------------------------------------------------------------------
# known findings

def load_known():
    p = os.path.join(VERIF, 'known_findings.json')
    if not os.path.exists(p):
        return []
    with open(p) as f:
        return json.load(f).get('findings', [])


def match_known(pid, v, known):
    for k in known:
        if k.get('status', 'open') != 'open' or k['property'] != pid:
            continue
        m = k['match']
        if m.get('harness') and m['harness'] != v['harness']:
            continue
        if m.get('label') and not re.search(m['label'], v['label']):
            continue
        if m.get('error') and not re.search(m['error'], (v.get('error') or '') + ' ' + (v.get('detail') or '')):
            continue
        ok = True
        for pk, pv in (m.get('params') or {}).items():
            if v['params'].get(pk) != pv:
                ok = False
        if m.get('params_re'):
            if not re.search(m['params_re'], json.dumps(v['params'], sort_keys=True, default=str)):
                ok = False
        if ok:
            return k
    return None


if __name__ == '__main__':
    _replay_main()
