"""Typed-buffer file model: a file is a sequence of typed fields ('i' 4 bytes, 'd' 8 bytes) holding concrete or symbolic values; `read(n)`
returns the fields in [pos, pos+n) cut at the (possibly symbolic) file length L; `struct.unpack` fails unless size and field kinds match.
Partial reads: the exact length matters to the readers only through `len(t) < 4`, truthiness and struct.unpack (AST-scanned by the harness),
so partial lengths are enumerated for reads <= 16 bytes and collapsed into one class otherwise."""
import re
import struct as _struct
import types

import z3

from .core import Ctx, SB, SInt, Realize


class SymBytes:
    def __init__(self, fields, n, full):
        self.fields = fields
        self.n = n
        self.full = full

    def __len__(self):
        return self.n

    def __bool__(self):
        return self.n > 0


class SymFile:
    exact = False       # True: every partial length is its own path (needed when the code looks at more than len / unpack)

    def __init__(self, fields, L):
        self.fields = fields
        self.L = L          # int or z3 Int term
        self.pos = 0
        self.fi = 0
        self.dead = False

    def __enter__(self):
        return self

    def __exit__(self, *a):
        return False

    def close(self):
        pass

    def read(self, n=-1):
        if self.dead:
            return SymBytes([], 0, False)
        c = Ctx.cur
        p = self.pos
        fs = []
        tot = 0
        i = self.fi
        while (n < 0 or tot < n) and i < len(self.fields):
            fs.append(self.fields[i])
            tot += self.fields[i][1]
            i += 1
        if n >= 0 and tot > n:
            raise Realize('misaligned read of %d bytes at offset %d' % (n, p))
        if tot == 0:
            return SymBytes([], 0, False)
        L = self.L
        if isinstance(L, int):
            if L >= p + tot:
                self.pos += tot
                self.fi = i
                return SymBytes(fs, tot, True)
            self.dead = True
            return SymBytes(fs, max(0, L - p), False)
        if bool(SB(L >= p + tot)):
            self.pos += tot
            self.fi = i
            return SymBytes(fs, tot, True)
        self.dead = True
        if bool(SB(L <= p)):
            return SymBytes([], 0, False)
        if tot <= 16 or self.exact:
            for m in range(1, tot):
                if m == tot - 1:
                    c.pc.append(L == p + m)
                    return SymBytes(fs, m, False)
                if bool(SB(L == p + m)):
                    return SymBytes(fs, m, False)
        c.pc.append(z3.And(L > p, L < p + tot))
        return SymBytes(fs, tot - 1, False)


def unpack(fmt, b):
    f = fmt.lstrip('<=@>!')
    kinds = []
    for cnt, ch in re.findall(r'(\d*)([id])', f):
        kinds += [ch] * (int(cnt) if cnt else 1)
    size = sum(4 if k == 'i' else 8 for k in kinds)
    if not isinstance(b, SymBytes):
        return _struct.unpack(fmt, b)
    if len(b) != size or not b.full:
        raise _struct.error('unpack requires a buffer of %d bytes' % size)
    if [k for k, _, _ in b.fields] != kinds:
        raise Realize('field kinds %s read as %s' % ([k for k, _, _ in b.fields], kinds))
    return tuple(v for _, _, v in b.fields)


def unpack_from(fmt, b, offset=0):
    """struct.unpack_from: needs offset + size bytes to be present, returns the fields that start at `offset` (a partially read buffer
    offers its leading len(b) bytes)"""
    f = fmt.lstrip('<=@>!')
    kinds = []
    for cnt, ch in re.findall(r'(\d*)([id])', f):
        kinds += [ch] * (int(cnt) if cnt else 1)
    size = sum(4 if k == 'i' else 8 for k in kinds)
    if not isinstance(b, SymBytes):
        return _struct.unpack_from(fmt, b, offset)
    if len(b) - offset < size:
        raise _struct.error('unpack_from requires a buffer of at least %d bytes for unpacking %d bytes at offset %d (actual buffer size is %d)' % (offset + size, size, offset, len(b)))
    pos = 0
    out = []
    for k, sz, v in b.fields:
        if pos >= offset and len(out) < len(kinds):
            if pos == offset + sum(4 if kk == 'i' else 8 for kk in kinds[:len(out)]) and k == kinds[len(out)]:
                out.append(v)
            else:
                raise Realize('unpack_from at offset %d does not meet the field layout' % offset)
        elif pos < offset < pos + sz:
            raise Realize('unpack_from offset %d inside a field' % offset)
        pos += sz
    if len(out) != len(kinds):
        raise Realize('unpack_from beyond the modelled fields')
    return tuple(out)


class _Struct:
    """stand-in for the module `struct` inside the readers; anything that is not modelled ends the path as inconclusive instead of looking like a reader error"""
    unpack = staticmethod(unpack)
    unpack_from = staticmethod(unpack_from)
    error = _struct.error
    calcsize = staticmethod(_struct.calcsize)

    def __getattr__(self, name):
        raise Realize('struct.%s is not modelled by the typed buffer' % name)


STRUCT = _Struct()


def I(v):
    return ('i', 4, v)


def D(v):
    return ('d', 8, v)


def to_bytes(fields, values=None):
    """concrete bytes of a typed buffer (for the replay against the real struct / open)"""
    out = b''
    for k, _, v in fields:
        out += _struct.pack('<i' if k == 'i' else '<d', int(v) if k == 'i' else float(v))
    return out


def frombuffer(b, dtype=float, **kw):
    """np.frombuffer on a typed buffer: whole doubles only (numpy raises ValueError otherwise)"""
    import numpy as _np
    if not isinstance(b, SymBytes):
        return _np.frombuffer(b, dtype=dtype, **kw)
    if _np.dtype(dtype) != _np.dtype('float64'):
        raise Realize('frombuffer dtype %r' % (dtype,))
    if len(b) % 8:
        raise ValueError('buffer size must be a multiple of element size')
    n = len(b) // 8
    out = []
    for k, size, v in b.fields[:n]:
        if k != 'd':
            raise Realize('frombuffer over a non-double field')
        out.append(v)
    return _np.array(out, dtype=object)
