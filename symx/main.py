"""vcheck driver: `run CNN --tier quick|thorough`, `replay FILE`, `selftest`, `list`."""
import argparse
import glob
import json
import multiprocessing as mp
import os
import random
import sys
import time

from . import runner
from .runner import VERIF, EXIT_OK, EXIT_VIOLATION, EXIT_INCONCLUSIVE

OUT = os.environ.get('VERIF_OUT') or VERIF      # seed evaluations on scratch copies write their evidence / replays elsewhere


def _pool_run(jobs, nproc):
    if not jobs:
        return []
    ctx = mp.get_context('fork')
    nproc = max(1, min(nproc, len(jobs)))
    if nproc == 1:
        return [runner.run_job(j) for j in jobs]
    with ctx.Pool(nproc, maxtasksperchild=8) as pool:
        return list(pool.imap_unordered(runner.run_job, jobs, chunksize=1))


def git_rev(path):
    try:
        import subprocess
        return subprocess.run(['git', '-C', path, 'rev-parse', '--short', 'HEAD'], capture_output=True, text=True).stdout.strip()
    except Exception:
        return ''


def run_canaries(mod, pid, tier, seed, nproc):
    """In-memory mutants of the imported pyerrors modules; each must be detected by the listed jobs."""
    out = []
    cans = getattr(mod, 'CANARIES', [])
    for can in cans:
        if tier == 'quick' and not can.get('quick', False):
            continue
        jobs = can['jobs'](tier, seed)
        for j in jobs:
            j.setdefault('opts', {})
            j['opts'] = dict(getattr(mod, 'OPTS', {}), **dict(j['opts'], canary=can['name'], fail_fast=True, max_replays=2))
            j['pid'] = pid
        res = _pool_run(jobs, nproc)
        killed = any(r['violations'] for r in res)
        skipped = all(any(i.get('label') == 'canary-skipped' for i in r['inconclusive']) for r in res) if res else True
        out.append(dict(name=can['name'], what=can.get('what', ''), killed=bool(killed), skipped=bool(skipped and not killed), jobs=len(jobs)))
    return out


def cmd_run(args):
    pid = args.pid.upper()
    tier = args.tier or os.environ.get('VERIF_TIER') or 'quick'
    seed = int(os.environ.get('VERIF_SEED', '0') or 0)
    nproc = int(os.environ.get('VERIF_NPROC', '0') or 0) or (os.cpu_count() or 4)
    t0 = time.time()
    mod = runner.prop_module(pid)
    jobs = mod.jobs(tier, seed)
    if args.only:
        jobs = [j for j in jobs if args.only in j['harness'] or args.only in json.dumps(j['params'], default=str)]
    for j in jobs:
        j['pid'] = pid
        o = dict(getattr(mod, 'OPTS', {}))
        o.update(j.get('opts') or {})
        if os.environ.get('VERIF_JOB_TIMEOUT'):
            o['job_timeout'] = int(os.environ['VERIF_JOB_TIMEOUT'])
        j['opts'] = o
    results = _pool_run(jobs, nproc)
    results.sort(key=lambda r: (r['harness'], json.dumps(r['params'], sort_keys=True, default=str)))

    canaries = []
    if not args.no_canaries and not args.only:
        canaries = run_canaries(mod, pid, tier, seed, nproc)

    known = runner.load_known()
    viol, known_hits, inconc = [], {}, []
    for r in results:
        for v in r['violations']:
            k = runner.match_known(pid, v, known)
            if k is not None:
                known_hits.setdefault(k['id'], (k, []))[1].append(v)
            else:
                viol.append(v)
        for i in r['inconclusive']:
            inconc.append(dict(i, harness=r['harness'], params=r['params']))
    for c in canaries:
        if not c['killed'] and not c['skipped']:
            inconc.append(dict(label='canary', why='canary mutant %s not detected' % c['name']))

    # ---- report
    os.makedirs(os.path.join(OUT, 'replays'), exist_ok=True)
    for f in glob.glob(os.path.join(OUT, 'replays', pid + '-*.json')):
        os.remove(f)
    for kid, (k, vs) in sorted(known_hits.items()):
        print('KNOWN-FINDING: property=%s %s [%s; %d occurrence(s) in this run]' % (pid, k['what'], kid, len(vs)))
    seen = set()
    n = 0
    for v in viol:
        key = (v['harness'], _label_class(v['label']))
        if key in seen and n >= 1:
            continue
        seen.add(key)
        n += 1
        path = os.path.join(OUT, 'replays', '%s-%d.json' % (pid, n))
        with open(path, 'w') as f:
            json.dump(dict(property=pid, harness=v['harness'], params=v['params'], values=v['values'], label=v['label'],
                           kind=v['kind'], failed=v['failed'], error=v['error'], detail=v.get('detail', '')), f, indent=1, default=str)
        print('VIOLATION property=%s replay=%s' % (pid, path))
        print('  harness=%s label=%s kind=%s params=%s' % (v['harness'], v['label'], v['kind'], json.dumps(v['params'], default=str)[:300]))
        for fl in v['failed'][:3]:
            print('    failed: %s  %s' % (fl['label'], fl.get('detail', '')[:200]))
        if v['error']:
            print('    error: %s' % v['error'][:300])
        if v.get('detail'):
            print('    symbolic: %s' % str(v['detail'])[:300])
        if n >= 12:
            break
    for i in inconc[:15]:
        print('INCONCLUSIVE property=%s harness=%s label=%s why=%s %s' % (pid, i.get('harness', '-'), i.get('label'), i.get('why'),
                                                                      json.dumps(i.get('params', {}), default=str)[:200]))
        if args.verbose and i.get('trace'):
            print(i['trace'])
        if args.verbose and i.get('detail'):
            print('   detail:', i['detail'])

    if args.verbose or os.environ.get('VERIF_TIMES'):
        for r in sorted(results, key=lambda r: -r['wall_s'])[:8]:
            print('  slow job: %.1fs solver %.1fs paths %d  %s %s  [slowest query %.1fs: %s]' % (r['wall_s'], r['solver_s'], r['paths'], r['harness'], json.dumps(r['params'], default=str)[:160], r['max_query_s'], r['slowest']))
    wall = time.time() - t0
    ev = build_evidence(mod, pid, tier, seed, results, canaries, viol, known_hits, inconc, wall, nproc)
    os.makedirs(os.path.join(OUT, 'evidence'), exist_ok=True)
    with open(os.path.join(OUT, 'evidence', pid + '.json'), 'w') as f:
        json.dump(ev, f, indent=1, default=str)
    cov = ev['coverage']
    print('%s tier=%s jobs=%d paths=%d obligations=%d discharged=%d (ground %d) violations=%d known=%d inconclusive=%d solver_s=%.1f max_query_s=%.1f wall_s=%.1f'
          % (pid, tier, len(jobs), cov['paths'], cov['obligations'], cov['discharged'], cov['ground_obligations'], len(viol),
             len(known_hits), len(inconc), cov['solver_s'], cov['max_query_s'], wall))
    if canaries:
        print('  canaries: ' + ', '.join('%s=%s' % (c['name'], 'killed' if c['killed'] else ('skipped' if c['skipped'] else 'MISSED')) for c in canaries))
    if viol:
        return EXIT_VIOLATION
    if inconc:
        return EXIT_INCONCLUSIVE
    return EXIT_OK


def _label_class(lbl):
    import re
    return re.sub(r'[0-9]+', '#', lbl)


def build_evidence(mod, pid, tier, seed, results, canaries, viol, known_hits, inconc, wall, nproc):
    meta = getattr(mod, 'META', {})
    funcs = sorted(set(f for r in results for f in r['funcs']))
    samples = []
    for r in results:
        for s in r['samples']:
            if len(samples) < 4:
                samples.append(dict(s, params=r['params']))
    if not samples and results:
        samples.append(dict(harness=results[0]['harness'], params=results[0]['params'], note='no symbolic obligation sampled'))
    tiers = {}
    for r in results:
        for k, v in r['tiers'].items():
            tiers[k] = tiers.get(k, 0) + v
    obligations = sum(r['obligations'] for r in results)
    discharged = sum(r['discharged'] for r in results)
    ground = sum(r['ground'] for r in results)
    per_h = {}
    for r in results:
        d = per_h.setdefault(r['harness'], dict(jobs=0, paths=0, obligations=0, discharged=0, solver_s=0.0))
        d['jobs'] += 1
        d['paths'] += r['paths']
        d['obligations'] += r['obligations']
        d['discharged'] += r['discharged']
        d['solver_s'] = round(d['solver_s'] + r['solver_s'], 2)
    cov = dict(
        explanation=meta.get('explanation', '') + ' Engine: re-execution symbolic execution of the real pyerrors code on z3-Real proxies '
        '(symx), one fresh z3 solver per query; every obligation is `path condition AND lemmas AND NOT goal` and is discharged by `unsat`. '
        'Structure (names, configuration lists, shapes) is enumerated over the stated finite family, values are universally quantified by the solver.',
        functions_encoded=funcs,
        bounds=meta.get('bounds', ''),
        outside_claim=meta.get('outside', []),
        harnesses=per_h,
        jobs=len(results),
        paths=sum(r['paths'] for r in results),
        infeasible_paths_pruned=sum(r['infeasible'] for r in results),
        expected_exception_paths=sum(r['expected_exc'] for r in results),
        obligations=obligations,
        discharged=discharged,
        ground_obligations=ground,
        symbolic_obligations=obligations - ground,
        lemma_tier_histogram=tiers,
        sat_replayed=sum(r['replays'] for r in results),
        unknown=sum(1 for i in inconc if 'unknown' in str(i.get('why'))),
        feasibility_unknown_assumed_feasible=sum(r['assumed_feasible'] for r in results),
        automatic_domain_assumptions=sum(r['domain_assumptions'] for r in results),
        queries=sum(r['queries'] for r in results),
        solver_s=round(sum(r['solver_s'] for r in results), 2),
        max_query_s=max([r['max_query_s'] for r in results] + [0.0]),
        query_timeout_s=(getattr(mod, 'OPTS', {}).get('timeout', 60000)) / 1000.0,
        canaries=canaries,
        canaries_killed=sum(1 for c in canaries if c['killed']),
        evaluations=sum(r['paths'] for r in results),
        distinct_nontrivial=sum(r['nontrivial'] for r in results),
        rule='one evaluation = one feasible path of one harness instance (layout x operation); it is non-trivial when at least one of its '
             'obligations is a genuine solver query over symbolic values (not a comparison of concrete structure); instances are distinct by construction '
             '(distinct parameters or distinct decision prefixes).',
        samples=samples,
        exhaustive=bool(meta.get('exhaustive_' + tier, False)) and not inconc,
        checker_cmd='./vcheck run %s --tier %s' % (pid, tier),
        trusted_base=['z3 %s (nlsat / simplex)' % _z3v(), 'CPython + numpy object-array dispatch', 'symx proxies and shims (validated by ./vcheck selftest)']
        + list(meta.get('stubs', [])),
        known_findings_hit=[dict(id=k, what=kk['what'], occurrences=len(vs)) for k, (kk, vs) in sorted(known_hits.items())],
        inconclusive=[dict(harness=i.get('harness'), label=i.get('label'), why=i.get('why')) for i in inconc[:20]],
        repo_rev=git_rev('/repo'),
        nproc=nproc,
    )
    return dict(property_id=pid, tier=tier, seed=seed, level='other', coverage=cov,
                assumptions=list(meta.get('assumptions', [])) + ['real-number semantics of the Python source (no floating-point rounding); '
                                                                 'floats within 2e-15 of a rational with denominator < 1e7 are read as that rational',
                                                                 'denominators met during symbolic execution are assumed non-zero (domain of the formula)'],
                wall_s=round(wall, 2), violations=len(viol))


def _z3v():
    import z3
    return z3.get_version_string()


def cmd_replay(args):
    with open(args.file) as f:
        d = json.load(f)
    rp = runner.replay(d['property'], d['harness'], d['params'], d['values'])
    print(json.dumps(dict(property=d['property'], harness=d['harness'], label=d['label'], failed=rp['failed'][:10], error=rp['error']), indent=1, default=str))
    if rp['failed'] or (rp['error'] and not rp['invalid']):
        print('REPRODUCED')
        return 1
    print('not reproduced')
    return 0


def cmd_selftest(args):
    from . import selftest
    return selftest.main()


def main(argv=None):
    ap = argparse.ArgumentParser(prog='vcheck')
    sub = ap.add_subparsers(dest='cmd')
    r = sub.add_parser('run')
    r.add_argument('pid')
    r.add_argument('--tier', choices=['quick', 'thorough'])
    r.add_argument('--only', default=None, help='debug: run only jobs whose harness/params contain this string (evidence is still written)')
    r.add_argument('--no-canaries', action='store_true')
    r.add_argument('-v', '--verbose', action='store_true')
    p = sub.add_parser('replay')
    p.add_argument('file')
    sub.add_parser('selftest')
    sub.add_parser('list')
    args = ap.parse_args(argv)
    if args.cmd == 'run':
        return cmd_run(args)
    if args.cmd == 'replay':
        return cmd_replay(args)
    if args.cmd == 'selftest':
        return cmd_selftest(args)
    if args.cmd == 'list':
        for f in sorted(glob.glob(os.path.join(VERIF, 'props', 'c*.py'))):
            print(os.path.basename(f)[:-3].upper())
        return 0
    ap.print_help()
    return 2


if __name__ == '__main__':
    sys.exit(main())
