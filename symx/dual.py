"""Forward-mode dual numbers (nestable) over SV / float: the contract of autograd.jacobian/hessian and
numdifftools ("returns the derivative"), and the calculus oracle of the specifications.
The rule table is textbook calculus, written independently of pyerrors' man_grad expressions."""
import numpy as _np

from . import core
from .core import SV, SInt, Realize

_LEVEL = [0]


def _fn(name, v):
    if isinstance(v, Dual):
        return getattr(v, name)()
    return core.fn(name, v)


class Dual:
    __slots__ = ('v', 'd', 'lvl')
    shape = ()
    ndim = 0
    size = 1

    def __init__(s, v, d, lvl):
        s.v = v
        s.d = d
        s.lvl = lvl

    def __getitem__(s, k):
        if k == () or k is Ellipsis:
            return s
        raise IndexError(k)

    def item(s):
        return s

    @staticmethod
    def lift(o, lvl):
        if isinstance(o, Dual):
            if o.lvl == lvl:
                return o
            if o.lvl > lvl:
                raise Realize('dual level order')
        return Dual(o, {}, lvl)

    def _bin(s, o, fv, fa, fb):
        if isinstance(o, _np.ndarray):
            if o.shape == ():
                o = o.item()
            else:
                return NotImplemented
        if isinstance(o, (list, tuple)):
            return NotImplemented
        lvl = max(s.lvl, o.lvl if isinstance(o, Dual) else -1)
        a = Dual.lift(s, lvl)
        b = Dual.lift(o, lvl)
        v = fv(a.v, b.v)
        d = {}
        if a.d:
            pa = fa(a.v, b.v)
            for k, x in a.d.items():
                d[k] = pa * x
        if b.d:
            pb = fb(a.v, b.v)
            for k, x in b.d.items():
                d[k] = d[k] + pb * x if k in d else pb * x
        return Dual(v, d, lvl)

    def __add__(s, o):
        return s._bin(o, lambda a, b: a + b, lambda a, b: 1, lambda a, b: 1)
    __radd__ = __add__

    def __sub__(s, o):
        return s._bin(o, lambda a, b: a - b, lambda a, b: 1, lambda a, b: -1)

    def __rsub__(s, o):
        return (-s) + o

    def __mul__(s, o):
        return s._bin(o, lambda a, b: a * b, lambda a, b: b, lambda a, b: a)
    __rmul__ = __mul__

    def __truediv__(s, o):
        return s._bin(o, lambda a, b: a / b, lambda a, b: 1 / b, lambda a, b: -a / (b * b))

    def __rtruediv__(s, o):
        if isinstance(o, _np.ndarray) and o.shape != ():
            return NotImplemented
        return Dual.lift(o, s.lvl) / s

    def __neg__(s):
        return Dual(-s.v, {k: -x for k, x in s.d.items()}, s.lvl)

    def __pos__(s):
        return s

    def __abs__(s):
        sg = core.If(s.v >= 0, 1, -1)
        return Dual(abs(s.v), {k: sg * x for k, x in s.d.items()}, s.lvl)

    def __pow__(s, o):
        if isinstance(o, (float, _np.floating)) and float(o).is_integer():
            o = int(o)
        if isinstance(o, (int, _np.integer)) and not isinstance(o, bool):
            o = int(o)
            if o == 0:
                return Dual.lift(1, s.lvl)
            return s._un(lambda v: v ** o, lambda v: o * v ** (o - 1))
        if isinstance(o, Dual) or isinstance(o, (SV,)):
            # x ** y = exp(y log x)
            return s._bin(o, lambda a, b: a ** b, lambda a, b: b * a ** (b - 1), lambda a, b: a ** b * _fn('log', a))
        return s._un(lambda v: v ** o, lambda v: o * v ** (o - 1))

    def __rpow__(s, o):
        # o ** s, o a plain number
        return s._un(lambda v: o ** v, lambda v: o ** v * _fn('log', o))

    def _un(s, f, df):
        if not s.d:
            return Dual(f(s.v), {}, s.lvl)
        p = df(s.v)
        return Dual(f(s.v), {k: p * x for k, x in s.d.items()}, s.lvl)

    # comparisons act on the value (piecewise definitions)
    def __lt__(s, o):
        return s.v < (o.v if isinstance(o, Dual) else o)

    def __le__(s, o):
        return s.v <= (o.v if isinstance(o, Dual) else o)

    def __gt__(s, o):
        return s.v > (o.v if isinstance(o, Dual) else o)

    def __ge__(s, o):
        return s.v >= (o.v if isinstance(o, Dual) else o)

    def __eq__(s, o):
        return s.v == (o.v if isinstance(o, Dual) else o)

    def __ne__(s, o):
        return s.v != (o.v if isinstance(o, Dual) else o)
    __hash__ = None

    def conjugate(s):
        return s

    @property
    def real(s):
        return s

    @property
    def imag(s):
        return 0

    def __repr__(s):
        return 'Dual(%r, %d dirs, lvl %d)' % (s.v, len(s.d), s.lvl)

    # rule table
    def exp(s):
        return s._un(lambda v: _fn('exp', v), lambda v: _fn('exp', v))

    def log(s):
        return s._un(lambda v: _fn('log', v), lambda v: 1 / v)

    def sqrt(s):
        return s._un(lambda v: _fn('sqrt', v), lambda v: 1 / (2 * _fn('sqrt', v)))

    def sin(s):
        return s._un(lambda v: _fn('sin', v), lambda v: _fn('cos', v))

    def cos(s):
        return s._un(lambda v: _fn('cos', v), lambda v: -_fn('sin', v))

    def tan(s):
        return s._un(lambda v: _fn('tan', v), lambda v: 1 + _fn('tan', v) ** 2)

    def sinh(s):
        return s._un(lambda v: _fn('sinh', v), lambda v: _fn('cosh', v))

    def cosh(s):
        return s._un(lambda v: _fn('cosh', v), lambda v: _fn('sinh', v))

    def tanh(s):
        return s._un(lambda v: _fn('tanh', v), lambda v: 1 - _fn('tanh', v) ** 2)

    def arcsin(s):
        return s._un(lambda v: _fn('arcsin', v), lambda v: 1 / _fn('sqrt', 1 - v * v))

    def arccos(s):
        return s._un(lambda v: _fn('arccos', v), lambda v: -1 / _fn('sqrt', 1 - v * v))

    def arctan(s):
        return s._un(lambda v: _fn('arctan', v), lambda v: 1 / (1 + v * v))

    def arcsinh(s):
        return s._un(lambda v: _fn('arcsinh', v), lambda v: 1 / _fn('sqrt', v * v + 1))

    def arccosh(s):
        return s._un(lambda v: _fn('arccosh', v), lambda v: 1 / _fn('sqrt', v * v - 1))

    def arctanh(s):
        return s._un(lambda v: _fn('arctanh', v), lambda v: 1 / (1 - v * v))


def _seed(x, lvl):
    xa = _np.asarray(x, dtype=object)
    seeded = _np.empty(xa.shape, dtype=object)
    for idx, v in _np.ndenumerate(xa):
        seeded[idx] = Dual(v, {idx: 1}, lvl)
    return xa, (seeded if xa.ndim > 0 else seeded[()])


def _dir(o, lvl, idx):
    if isinstance(o, Dual) and o.lvl == lvl:
        return o.d.get(idx, 0)
    return 0


def jacobian(func, argnum=0):
    """contract stub of autograd.jacobian: out.shape + in.shape array of partial derivatives"""
    def jf(*args, **kw):
        x = args[argnum]
        _LEVEL[0] += 1
        lvl = _LEVEL[0]
        try:
            xa, arg = _seed(x, lvl)
            out = func(*(args[:argnum] + (arg,) + args[argnum + 1:]), **kw)
            oa = _np.asarray(out, dtype=object)
            res = _np.empty(oa.shape + xa.shape, dtype=object)
            for oi, o in _np.ndenumerate(oa):
                for idx, _ in _np.ndenumerate(xa):
                    res[oi + idx] = _dir(o, lvl, idx)
            return res if res.ndim > 0 else res[()]
        finally:
            _LEVEL[0] -= 1
    return jf


def egrad(func, argnum=0):
    """contract stub of autograd.elementwise_grad"""
    def gf(*args, **kw):
        x = args[argnum]
        _LEVEL[0] += 1
        lvl = _LEVEL[0]
        try:
            xa, arg = _seed(x, lvl)
            out = func(*(args[:argnum] + (arg,) + args[argnum + 1:]), **kw)
            oa = _np.asarray(out, dtype=object)
            # elementwise_grad = vector-Jacobian product with a vector of ones: d sum(out) / d x[idx]
            res = _np.empty(xa.shape, dtype=object)
            for idx, _ in _np.ndenumerate(xa):
                tot = 0
                for _oi, o in _np.ndenumerate(oa):
                    tot = tot + _dir(o, lvl, idx)
                res[idx] = tot
            return res if res.ndim > 0 else res[()]
        finally:
            _LEVEL[0] -= 1
    return gf


def hessian(func, argnum=0):
    return jacobian(jacobian(func, argnum), argnum)


def value_of(o):
    while isinstance(o, Dual):
        o = o.v
    return o


def partials(func, xs):
    """[d func / d xs[i]] for scalar-valued func(list) -- used by specifications"""
    j = jacobian(lambda x: func(x))(list(xs))
    return [j[i] for i in range(len(xs))]


class NDGradient:
    """contract stub of numdifftools.Gradient / Jacobian: returns the derivative"""
    def __init__(self, func, **kw):
        self.func = func

    def __call__(self, x, *a, **kw):
        j = jacobian(lambda y: self.func(y, *a, **kw))(x)
        return _np.asarray(j, dtype=object)
