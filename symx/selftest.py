"""Engine regression tests (not property checks): `./vcheck selftest`."""
import itertools
import math
import sys

import numpy as np
import z3

from . import core, dual, ast2smt, tbuf
from .core import Ctx, SV, SInt, SB, explore, snap, Fraction
from .npshim import NPShim, SymArray


def _ctx():
    c = Ctx('sym')
    Ctx.cur = c
    return c


def t_snap():
    assert snap(0.1) == Fraction(1, 10)
    assert snap(1e-08) == Fraction(1, 10 ** 8)
    assert snap(1 / 3) == Fraction(1, 3)
    assert snap((1 + 3 / 7) / (1 + 1 / 7)) == Fraction(10, 8)
    assert snap(2.0 ** -52) == Fraction(2.0 ** -52)
    assert snap(math.sqrt(2)) == Fraction(math.sqrt(2))


def t_arith():
    c = _ctx()
    x, y = c.real('x'), c.real('y')
    assert c.prove_eq((x + y) * (x - y), x * x - y * y, 'poly')
    c.assume(y != 0)
    assert c.prove_eq(x / y * y, x, 'div')
    assert c.prove_eq(core.sqrt(x * x + 1) ** 2, x * x + 1, 'sqrt')
    assert not c.prove_eq(x / y, y / x, 'must-fail')
    assert c.obligations[-1]['res'] == 'sat' and 'model' in c.obligations[-1]


def t_paths():
    def f(c):
        x = c.real('x')
        if x > 1:
            return 1
        if x > 0:
            return 2
        return 3
    assert sorted(r for _, r, st in explore(f) if st == 'ok') == [1, 2, 3]

    def g(c):
        x = c.real('x')
        c.assume(x > 2)
        if x < 1:
            raise AssertionError('infeasible path explored')
        return 0
    assert [st for _, r, st in explore(g)] == ['ok']


def t_symarray():
    c = _ctx()
    sh = NPShim()
    a = sh.zeros(3)
    for i in range(3):
        a[i] = c.real('a%d' % i)
    n0 = len(c.decisions)
    m = a <= 0.5
    assert isinstance(m, SymArray) and len(c.decisions) == n0      # no fork
    a[m] = 0.75
    assert c.prove(core.And(*[v >= 0.5 for v in a]), 'clipped')


def t_dual():
    c = _ctx()
    x, y = c.real('x'), c.real('y')
    f = lambda v: v[0] * core.fn('sin', v[1]) + v[0] * v[0] / v[1]
    g = dual.partials(f, [x, y])
    assert c.prove_eq(g[0], core.fn('sin', y) + 2 * x / y, 'd/dx')
    assert c.prove_eq(g[1], x * core.fn('cos', y) - x * x / (y * y), 'd/dy')
    H = dual.hessian(lambda v: v[0] * v[0] * v[1])(np.array([x, y], dtype=object))
    assert c.prove_eq(H[0, 1], 2 * x, 'hessian')
    # against floats
    Ctx.cur = Ctx('conc')
    gf = dual.partials(lambda v: v[0] * core.fn('exp', v[1]), [2.0, 0.5])
    assert abs(gf[1] - 2.0 * math.exp(0.5)) < 1e-12


def t_ast2smt():
    """translator validated by pushing concrete inputs (incl. the repo's own test inputs) through the real function and the encoding"""
    import pyerrors.dirac as D
    for name, n in (('epsilon_tensor', 3), ('epsilon_tensor_rank4', 4)):
        f = ast2smt.fdef(D, name)
        args = [a.arg for a in f.args.args]
        for tup in itertools.product(range(-1, 6), repeat=n):
            if n == 4 and sum(tup) % 3:
                continue
            tr = ast2smt.T(dict(zip(args, [z3.IntVal(v) for v in tup])))
            raises, returns = ast2smt.exec_straight(tr, ast2smt.strip_doc(f.body))
            r = z3.simplify(raises)
            try:
                val = getattr(D, name)(*tup)
                assert z3.is_false(r), (name, tup)
                got = z3.simplify(returns[0][1])
                assert abs(float(got.as_fraction()) - val) < 1e-12, (name, tup)
            except ValueError:
                assert z3.is_true(r), (name, tup)


def t_tbuf():
    c = _ctx()
    F = [tbuf.I(3), tbuf.D(SV(z3.Real('a'))), tbuf.D(SV(z3.Real('b')))]
    f = tbuf.SymFile(F, 20)
    assert tbuf.unpack('i', f.read(4)) == (3,)
    v = tbuf.unpack('2d', f.read(16))
    assert len(v) == 2
    f = tbuf.SymFile(F, 10)
    f.read(4)
    try:
        tbuf.unpack('2d', f.read(16))
        raise AssertionError('short read accepted')
    except tbuf._struct.error:
        pass
    import struct
    assert tbuf.to_bytes([tbuf.I(3), tbuf.D(1.5)]) == struct.pack('<i', 3) + struct.pack('<d', 1.5)


def t_round_int():
    def f(c):
        x = c.real('x')
        c.assume(core.And(x > 0.4, x < 1.6))
        return int(round(x))
    assert sorted(set(r for _, r, st in explore(f) if st == 'ok')) == [0, 1, 2]


TESTS = [t_snap, t_arith, t_paths, t_symarray, t_dual, t_ast2smt, t_tbuf, t_round_int]


def main():
    bad = 0
    for t in TESTS:
        try:
            t()
            print('ok   ', t.__name__)
        except Exception as e:  # noqa
            import traceback
            bad += 1
            print('FAIL ', t.__name__, type(e).__name__, e)
            traceback.print_exc(limit=3)
        finally:
            Ctx.cur = None
    print('selftest: %d/%d passed' % (len(TESTS) - bad, len(TESTS)))
    return 1 if bad else 0
