#!/usr/bin/env python3
"""Writes the task text handed to an independent sub-agent that is asked for a seeded change.

usage: tools/gen_seed_prompts.py <round> <base dir outside /repo and /verif> [ids...]

For every property id it creates <base>/<id>/ with a scratch git worktree of /repo (<base>/<id>/wt), an empty out/
directory and PROMPT.md.  The prompt contains the property text only (title, statement, quantifier, anchors) and the places
earlier seeded changes touched (so that a new one goes elsewhere) - nothing about the checks in /verif.
"""
import glob
import json
import os
import subprocess
import sys

rnd = sys.argv[1]
base = sys.argv[2]
ids = sys.argv[3:]
props = {}
for line in open('/verif/properties.jsonl'):
    p = json.loads(line)
    props[p['id']] = p
baseline = json.load(open('/root/.vp/BASELINE.json'))
for pid in ids or sorted(props):
    p = props[pid]
    d = os.path.join(base, pid)
    os.makedirs(os.path.join(d, 'out'), exist_ok=True)
    wt = os.path.join(d, 'wt')
    if not os.path.exists(wt):
        subprocess.run(['git', '-C', '/repo', 'worktree', 'add', '--detach', wt, 'HEAD'], check=True, stdout=subprocess.DEVNULL, stderr=subprocess.DEVNULL)
    earlier = []
    for sd in sorted(glob.glob('/verif/seeded/%s*' % pid)):
        m = json.load(open(sd + '/meta.json'))
        earlier.append('- ' + m['summary'][:260].replace('\n', ' ') + ' ...')
    txt = f"""# Task: a subtle change to pyerrors that breaks one stated property

You work in a scratch git worktree of the Python library pyerrors (Monte Carlo error analysis): `{wt}`.
Work ONLY inside `{d}`. Do not modify, and do not read, `/repo` or `/verif`. Use `/venv/bin/python` (all dependencies are installed there; there is no network).
To run anything against your modified tree use `cd {wt} && PYTHONPATH={wt} /venv/bin/python ...`.

## The property

**{pid}: {p['title']}**

Statement: {p['statement']}

Quantified over: {p['quantifier']['text']}

Code the property is anchored in: {json.dumps(p['anchors'], indent=1)}

## What is wanted

A change to the library code of pyerrors (under `pyerrors/`, not the tests) that

1. makes the property FALSE for some inputs / layouts / call sequences,
2. still imports, and still passes the existing test-suite: `cd {wt} && /venv/bin/python -m pytest -q -p no:cacheprovider --timeout=900 tests/`
   gives the same result as on the unchanged tree (on the unchanged tree 250 tests pass and these 11 fail for unrelated reasons:
   {', '.join(t.split('::')[1] for t in baseline['always_fail'])}). Run at least the test files that exercise the code you touch, better the whole suite
   (about 1-2 minutes; set OMP_NUM_THREADS=1),
3. needs something SPECIFIC to manifest: an unusual but legitimate input or layout, a particular combination of options, a multi-step sequence of calls,
   two cooperating sites that each look fine alone - not something ordinary use would expose at once,
4. looks like a plausible refactoring, optimisation or tidy-up a maintainer could have written (no comments that give it away).

Earlier changes for this property touched the following places; choose a DIFFERENT function / mechanism / trigger:
{chr(10).join(earlier) if earlier else '- (none)'}

## Deliverables (in `{d}/out/`)

* `patch.diff` - output of `git -C {wt} diff` (unified diff relative to the worktree's HEAD, applies with `patch -p1` / `git apply`),
* `demo.py` - a small self-contained program that uses only the public behaviour of pyerrors, exits 0 (prints OK) on the UNCHANGED tree and exits non-zero
  (assertion error with an informative message) WITH your change. It is run as `PYTHONPATH=<tree> /venv/bin/python demo.py`; it must not depend on random seeds
  it does not fix itself, and must not write outside a temporary directory. Check both directions yourself: save `git -C {wt} diff > {d}/out/patch.diff`, then `git -C {wt} apply -R {d}/out/patch.diff` / `git -C {wt} apply {d}/out/patch.diff`. Do NOT use `git stash` (the stash is shared with other worktrees of this repository) and do not commit.
* `meta.json` - keys: `property` ("{pid}"), `summary` (what was changed, where, and why it breaks the property), `needs_to_manifest` (what exactly is needed to see it, and what does
  NOT trigger it), `tests_run` (commands and results), `demo_result_with_change`, `demo_result_without_change`, `round` ({rnd}).

Leave the change applied (uncommitted) in the worktree. Finish with a three-line report: what you changed, what triggers it, test results.
"""
    open(os.path.join(d, 'PROMPT.md'), 'w').write(txt)
    print(d)
