"""debug helper: python tools/profile_canary.py C03 <canary-name>"""
import sys, time, json, importlib
sys.path.insert(0, '/repo'); sys.path.insert(0, '/verif')
from symx import runner
pid = sys.argv[1]; m = importlib.import_module('props.' + pid.lower())
can = [c for c in m.CANARIES if c['name'] == sys.argv[2]][0]
for j in can['jobs']('thorough', 0):
    j['pid'] = pid; j['opts'] = dict(getattr(m, 'OPTS', {}), canary=can['name'], fail_fast=True, max_replays=2)
    t = time.time(); R = runner.run_job(j)
    print(j['harness'], 'paths', R['paths'], 'obl', R['obligations'], 'dis', R['discharged'], 'viol', len(R['violations']), 'inc', len(R['inconclusive']), 'solver', round(R['solver_s'], 1), 'wall', round(time.time() - t, 1))
    for i in R['inconclusive'][:3]: print('   ', {k: str(v)[:300] for k, v in i.items() if k != 'trace'})
    for i in R['violations'][:2]: print('   V', {k: str(v)[:300] for k, v in i.items() if k not in ('values',)})
