#!/bin/bash
# usage: tools/seed_eval.sh <seed dir> <PROPERTY> [tier]   -- applies the seeded patch to /repo, runs the check, restores /repo
set -u
dir=$1; prop=$2; tier=${3:-quick}
cd /repo || exit 2
if [ -n "$(git status --porcelain --untracked-files=no)" ]; then echo "repo not clean"; exit 2; fi
git apply "$dir/patch.diff" || exit 2
cd /verif && ./vcheck run "$prop" --tier "$tier" --no-canaries > /tmp/seed_eval_$prop.log 2>&1
rc=$?
git -C /repo checkout -- .
echo "exit=$rc"; grep -c "^VIOLATION" /tmp/seed_eval_$prop.log; grep "^VIOLATION\|tier=" /tmp/seed_eval_$prop.log | head -5
