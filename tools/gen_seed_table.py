#!/usr/bin/env python3
"""Regenerates section 8.5 of DESIGN.md (table of seeded changes) from seeded/*/meta.json."""
import json
import os

V = os.path.dirname(os.path.dirname(os.path.abspath(__file__)))
INTRO = '''### 8.5 Seeded changes (independent sub-agents, property text only) and which checks catch them

Eight rounds (20 + 20 + 12 + 20 + 20 + 20 + 20 + 4 changes, one per property and round). Every sub-agent got the property text, the list of relevant source files and its own scratch git
worktree of /repo, nothing from /verif; agents of later rounds were additionally told which functions the earlier changes had touched, to go elsewhere; from round 5 on, after three changes had turned out to be
invisible in exact arithmetic, the agents were also asked for changes that show on ordinary finite data in exact real arithmetic (no reliance on rounding, absolute tolerances,
exact zeros, NaN / Inf), and in rounds 6 - 7 for C10 / C16 / C17 / C18 / C20 to stay inside the parts of the property that are claimed (no LAPACK decompositions, archives,
re-exported special functions). In round 7 four agents produced five changes each. Each change
was confirmed by `tools/seed_confirm.sh` (demo passes on the unchanged tree and fails with the patch; the whole test-suite with the patch gives exactly the
baseline lists) and evaluated with `tools/seed_eval_copy.sh` on a scratch copy of /repo; nothing was ever committed or left applied in /repo.
`seeded/<id>[-r2|...|-r8]/` holds patch.diff, demo.py and meta.json (with the evaluation).

Result: %s. What the misses had in common: the *discrete* parameters of a job (configuration-list layouts, option combinations, operand kinds, call
histories, file-name orders) are a finite family chosen by hand, while the numeric data are symbolic; a change that needs a layout / combination outside the
family is invisible. Every miss was answered by widening the family or by an engine feature (truthiness of symbolic reals, floating-point domains, a text-file
model, an eigen-decomposition contract, tiny / huge replay data, CrossHair on symbolic name strings, the failure mode of the minimiser contracts, numpy's dtype inference in the
shim's vectorize, struct.unpack_from in the typed buffer, an exact model of rfft / irfft that lets the FFT branch run, the determinant as a polynomial, a model of h5py), never by
special-casing the seeded patch; the new harnesses found ten genuine defects (8.4). Two changes of round 6 are caught by the check of a neighbouring property and not by
their own (C02-r6 by the relabelling invariance of C03 because C02 takes w_max from the code; C04-r6 by the union bookkeeping of C01 because the wrong result is itself well-formed).
Three changes are not caught and are outside the claim, all for the same reason - they are invisible in exact real arithmetic: C15-r4 needs a central value of exactly 0.0
(Inf / NaN semantics), C13-r5 replaces lstsq by the normal equations (same function, squared condition number in floating point), C16-r5 replaces a hash comparison by an
absolute tolerance of 1e-10 (needs matrices of size 1e-12; the harness forces the symmetrising branch because hashing of symbolic data is not modelled).
Under several mutants the checks are slow (C02-r2, C03-r3, C12: 25-30 min) because refuted obligations are escalated through all lemma tiers.

| seed | change (from the sub-agent's summary) | caught by | note |
|------|----------------------------------------|-----------|------|
'''
rows, stats = [], {}
for d in sorted(os.listdir(os.path.join(V, 'seeded'))):
    m = json.load(open(os.path.join(V, 'seeded', d, 'meta.json')))
    e = m['evaluation']
    rnd = m.get('round', 1)
    missed = bool(e.get('initially_missed'))
    caught = bool(e.get('detected_by'))
    st = stats.setdefault(rnd, [0, 0, 0])
    st[0 if (caught and not missed) else 1 if caught else 2] += 1
    summ = m['summary'].replace('\n', ' ').replace('|', '/')
    summ = summ[:170] + ('...' if len(summ) > 170 else '')
    by = (e.get('detected_by') or '**not caught**').replace('|', '/')
    note = (e.get('note') or '').replace('|', '/')
    rows.append('| %s | %s | %s | %s |' % (d, summ, by, ('**missed at first**: ' + note) if missed else ('caught at once' + ((': ' + note) if note else ''))))
res = '; '.join('round %d: %d caught at once, %d after strengthening%s' % (r, s[0], s[1], (', %d not caught' % s[2]) if s[2] else '') for r, s in sorted(stats.items()))
s = open(os.path.join(V, 'DESIGN.md')).read()
a = s.index('### 8.5 Seeded changes')
open(os.path.join(V, 'DESIGN.md'), 'w').write(s[:a] + INTRO % res + '\n'.join(rows) + '\n')
print(res)
