#!/usr/bin/env python3
"""Regenerates /verif/MANIFEST.json from the table below (keeps it valid and in sync)."""
import json
import os

HERE = os.path.dirname(os.path.dirname(os.path.abspath(__file__)))

LEVEL_TEXT = ('Bounded symbolic execution of the real pyerrors code (proxies for numbers, the code itself unmodified) with every obligation '
              'decided by z3 for all real values of all symbolic inputs; the structural bound (layouts, sizes) is enumerated and stated in the evidence. ')

# property -> (claimed?, technique, level text, level_note)  or (False, reason)
TABLE = {
    'C01': (True, 'symbolic execution of Obs/CObs operators and derived_observable on z3 reals; SMT (z3 QF_NRA) equivalence with a sample-level specification',
            'Every fluctuation, replica mean, value and covariance gradient of every result is proven equal to the C01 formula for all sample values, over the '
            'enumerated family of chain layouts and operator forms.',
            'Real-number semantics; autograd/numdifftools represented by a dual-number contract; transcendental functions uninterpreted; layouts bounded (see evidence.bounds).'),
    'C05': (True, 'symbolic execution of reweight/correlate/merge_obs/qtop_projection on z3 reals; SMT equivalence with a per-configuration-number specification',
            'reweight (both normalisation modes, function/method/Corr), correlate, merge_obs and qtop_projection are proven to pair samples by (replica, configuration '
            'number) for all sample values over the enumerated layouts; unalignable requests are shown to raise on every enumerated case.',
            'Real-number semantics; layouts bounded (weights on <= 3 replicas x <= 8 configurations); round() modelled exactly over the reals.'),
    'C13': (True, 'symbolic execution of jackknife/bootstrap export+import and gamma_method(S=0) on z3 reals (bootstrap table entries as z3 ints); SMT polynomial identities',
            'Leave-one-out means, import-export identity (idl included), jackknife-variance = naive error squared and bootstrap means are proven for all sample values '
            'for chain lengths 5..10 (14 thorough); bootstrap import restores the observable for concrete full-rank tables under the lstsq contract.',
            'Real-number semantics; scipy.linalg.lstsq replaced by its normal-equation contract; symbolic bootstrap tables limited to 1-2 symbolic entries per row.'),
    'C20': (True, 'AST-to-SMT translation (ast2smt) of epsilon_tensor / epsilon_tensor_rank4 / Grid_gamma / kn vjp from the current source; z3 over symbolic ints, strings and an uninterpreted K_n',
            'Permutation-sign value and raise-iff-outside-domain are decided for all index tuples in the box, the accepted Grid tags are shown to be exactly the 16 documented '
            'strings (symbolic string), the K_n derivative rule holds for every integer order; Dirac tables are checked in exact arithmetic.',
            'Index box bounded ([-1,5], thorough [-3,8]); K_n uninterpreted with K_{-n}=K_n, the three-term recurrence and ans = K_n(x) as facts; the vjp registered with autograd is evaluated itself (module source re-executed with a recording defvjp) for every integer order and every cotangent; re-exported autograd.scipy.special functions outside.'),
    'C02': (True, 'symbolic execution of gamma_method (Gamma(t) abstraction point, symbolic S/tau_exp/N_sigma/eps/tiny) + per-path SMT equivalence with Wolff formulas; ast2smt padding/index lemmas for the FFT branch',
            'Compositional: Gamma(t) of the real _calc_gamma equals the pair-normalised autocorrelation sum for all fluctuations; every output of the real windowing / bias / '
            'drho / tail / S=0 code equals the paper formula on every path for all Gamma values and parameters; the FFT padding lemma holds for all integers.',
            'Real-number semantics; FFT numerics trusted: rfft / irfft are replaced by their exact correlation-theorem model and the FFT branch is executed (fft_exec), the padding lemma is kept as an auxiliary check; chain length bounded (w_max <= 5, thorough 8/10); exp/log/sqrt uninterpreted with lemmas.'),
    'C03': (True, 'symbolic execution of gamma_method on pairs of objects sharing symbolic samples (relabelled / renamed / shifted / scaled / stale-state) + SMT equality of every output per path; ast2smt shift lemma; FFT branch of _calc_gamma executed on an exact rfft / irfft model (correlation theorem) and compared with the direct summation',
            'Invariance under i->a*i+b, replica renaming/reordering, additive constants, |c|-scaling, repeatability, independence from stale state and foreign dictionary entries, '
            'parameter precedence, non-mutation of the data, equality of the FFT and the direct path at every lag (also for replicas shorter than w_max) and tau_int>=1/2 / non-negative errors are proven for all sample values on every path of the enumerated cases.',
            'Real-number semantics ("finite" not expressible); scaling claimed away from the |Gamma(0)|<10*tiny underflow guard; chain length bounded; histories by one inductive step.'),
    'C06': (True, 'symbolic execution of covariance/_covariance_element/sort_corr/error_band on z3 reals with size-triggered term abstraction; SMT (QF_NRA) identities incl. sqrt lemmas',
            'Symmetry, diagonal = dvalue^2, unit-diagonal correlation, zero covariance for disjoint support, permutation equivariance, Pearson identity on the common '
            'configurations, the general normalisation formula, J1 Sigma J2^T, |corr|<=1 (compositional, thorough), sort_corr = key permutation and error_band^2 = g^T C g are proven '
            'for all sample values / gradients / matrix entries over the enumerated layouts. Under LAPACK contracts: eigenvalue smoothing returns V diag(w_smoothed) V^T with trace n and unchanged ratios of the E largest eigenvalues (n = 5), the Cholesky-based inverse X is lower triangular with (X^T X)(D corr D) = 1 (n = 2).',
            'Real-number semantics; PSD for n>2 outside; eigenvalue smoothing and the Cholesky-based inverse only under the eigh / cholesky / solve_triangular contracts (LAPACK numerics outside); data assumed non-degenerate (non-zero variance on common configurations).'),
    'C14': (True, 'symbolic execution of Corr operators / functions / index transformations on correlators with distinct symbolic samples per entry, symbolic integer arguments; SMT equality per entry + structural non-mutation checks',
            'Timeslice-wise action, preserved T/N, exact propagation of undefined slices, the stated index maps (roll for all dt, thin for all spacing/offset, symmetric, anti_symmetric, '
            'T_symmetry, item, projected, trace, matrix_symmetric, Hankel) and non-mutation of operands and arguments are decided for all sample values over the enumerated None patterns.',
            'Real-number semantics (NaN->undefined outside); T<=5, N<=2; warnings of the symmetry helpers stubbed; known finding: CObs / Corr raises TypeError.'),
    'C15': (True, 'symbolic execution of Corr.deriv / second_deriv / m_eff / plateau on symbolic samples; SMT equality with the documented per-timeslice formula, path-wise decision of the undefined set; fsolve contract for cosh/sinh',
            'Every variant is proven to return exactly the documented finite-difference / log / arccosh / averaging formula on the referenced slices (value and every fluctuation), '
            'to be undefined exactly where stated, and to raise only when no output slice is defined; the cosh/sinh variants satisfy the root equation and the implicit-function rule under the fsolve contract.',
            'Real-number semantics; T<=6; fsolve replaced by its contract; plateau by fit is covered through C07 (constant model).'),
    'C09': (True, 'symbolic execution of find_root and integrate.quad behind contract stubs (fsolve = some root, quad = registered antiderivative with integrand check); SMT (QF_NRA) obligations',
            'f(x,d)=0 at the central values, the implicit-function rule f_x dx + f_d dd = 0 for every fluctuation and gradient, equality with the directly applied inverse (invertible '
            'families) and, for quad, equality of value and all fluctuations with the one-shot propagation of F(p,b)-F(p,a) are proven for all sample values.',
            'Real-number semantics; fsolve / QUADPACK replaced by their contracts; function families enumerated.'),
    'C07': (True, 'symbolic execution of the real least_squares body behind minimiser / linear-solve contracts; decomposed SMT obligations (function minimised = documented chi-square; H = 2 A^T W A; M = -2 A^T W; parameter fluctuations = -X d(data))',
            'For linear models with symbolic y samples, symbolic errors, symbolic priors and a symbolic inverse Cholesky factor: the function handed to the minimiser is the documented chi-square at an arbitrary point, '
            'the matrices handed to scipy.linalg.solve are the GLS normal matrix and right-hand side, and every fluctuation / gradient of every parameter is -X times the (embedded) data fluctuation; '
            'together with the contracts this is the GLS estimator in value and every fluctuation; chisquare, dof and p-value arguments are decided as well.',
            'Minimisers and LAPACK replaced by contracts (stationary point, or reported failure with an arbitrary point - then the fit must raise; A X = B); correlation matrices estimated from the data: wiring into covariance / invert_corr_cov_cholesky decided here, the two functions in C06 (compositional); expected_chisquare outside; the final linear-algebra step (H X = M => GLS) is an argument, not a query.'),
    'C08': (True, 'symbolic execution of least_squares / total_least_squares for non-linear models behind minimiser / ODR / linear-solve contracts; decomposed SMT obligations (A) Hessian, (B) mixed derivatives, (C) wiring, (D) function minimised',
            'For exponential, cosh, rational and multi-dimensional models (and the TLS straight line / exponential / rational) the matrices handed to the linear solver are proven to be the Hessian and the '
            'mixed second derivatives of an independently written chi-square (incl. the x-residual term) at the stationary point, and every parameter fluctuation is -X d(data) in the library\'s data order; '
            'with H X = M this is the implicit-function rule for all sample values.',
            'Minimiser / ODRPACK numerics replaced by the stationary-point contract (incl. the failure mode success=False / ODR info 4, 5, on which the fit must raise; replayed by driving the real libraries into their iteration limit); the re-fit corollary and the dx->0 limit are consequences, not separately run; final linear-algebra step is an argument.'),
    'C10': (True, 'symbolic execution of linalg.matmul / jack_matmul / inv / _scalar_mat_op / array_mode on matrices of symbolic observables; SMT equivalence modulo embedding; LAPACK inverse replaced by its (differentiated) contract',
            'matmul (real, complex, 2-3 factors) and array_mode equal the explicit sum of element products; jack_matmul has the exact central value and the jackknife pseudo-value fluctuations; '
            'inv(): the matrix handed to LAPACK is A (resp. [[A,-B],[B,A]]), the result carries X (resp. X11 + i X21) and every fluctuation is -(X dM X), which with M X = 1 gives A inv(A) = 1 in value and every fluctuation; '
            '_scalar_mat_op reassembles row-major; det equals the cofactor expansion built with the Obs operators (n <= 3, determinant as its Leibniz polynomial, derivative by the product rule on dual numbers).',
            'einsum for real operands like jack_matmul (exact value, jackknife pseudo-value fluctuations); cholesky, eigh, eig, pinv, svd and complex einsum are outside (LAPACK decompositions / dtype dispatch cannot be encoded); the final step M X = 1 => identity is an argument except for the 1x1 end-to-end case.'),
    'C11': (True, 'symbolic execution of the JSON writers / readers / dict helpers / file and data-frame transports on symbolic observables behind a rapidjson data-model contract; SMT equality of every attribute after the round trip',
            'Every attribute of every re-imported Obs / list / array / Corr / nested dict equals the original for all values, fluctuations, replica means and gradients; structure, tags, prange, None pattern, '
            'idl form and flags are compared concretely; every emitted document validates against the shipped schema (one instantiation, justified by a scan of the schema).',
            'rapidjson, gzip, file system replaced by contracts / in-memory stand-ins; sqlite, csv text and pickle outside; NaN data outside.'),
    'C12': (True, 'symbolic execution of the dobs / pobs writers and readers (real lxml on the concrete text) with a tag-double text channel for the symbolic numbers; zero tests are symbolic branches; SMT equality after the round trip',
            'Every central value, chain, configuration number, fluctuation, replica mean and covariance gradient of every re-imported observable equals the original for all values (lists of observables on different '
            'configuration subsets / replicas / ensembles, covariance inputs), through the string API and in-memory files with gz on/off and all separator_insertion modes; the zero patterns of the written numbers are explored as paths.',
            'printf/strtod replaced by the contract "identity on doubles" (cov/grad are printed with 15 digits only); known finding: samples that are written as exactly zero are lost on import.'),
    'C19': (True, 'symbolic execution of _format_uncertainty / __format__ / _extract_val_and_dval with a decimal-rounding contract for float formatting (token digits bound to z3 integers) and a case split for floor(log10); SMT (linear integer/real arithmetic)',
            'For every real value and every positive error in the exponent range, significance 1..6 and flags "", "+", " ": value and error are recovered from the printed string within half a unit of the last printed digit, the error has '
            'the requested number of significant digits, flags only prepend their character, CObs prints both parts, prior strings give exactly the parsed value and error, and comparisons / n-sigma test / plottable use value and dvalue.',
            'Claim over the reals: libm log10 at powers of ten and binary rounding inside printf are outside.'),
    'C17': (True, 'symbolic execution of the openQCD binary readers on a typed-buffer file model, of the sfcf text readers on a tagged-token text model and of the Hadrons hdf5 correlator reader on a model of h5py (every stored number a distinct z3 symbol, directory listing order a parameter); z3 normal-form / SMT equality with the documented reduction per record',
            'read_rwms (1.4/1.6/2.0), read_qtop/_read_flow_obs (openQCD) and read_ms5_xsf are proven to attach to every replica name and configuration number exactly the documented reduction of the numbers stored in that record, '
            'for all stored values, over replica sets with differing digit counts, all listing permutations, several factors / sources / flow times / correlators and r_start / r_stop / r_step selections; '
            'read_sfcf (versions 2.0 / 2.0c / 2.0a: folder, compact and appended layout; bi / bb / bib correlators, wf / wf2 selections, real and imaginary part, explicit file lists) likewise.',
            'Hadrons hdf5: read_hd5 / read_meson_hd5 on a structural model of h5py (tree of groups, symbolic complex datasets; file order by configuration number, idl selections, entry by attributes / index, real / imag / complex part); the other hdf5 readers not covered; sfcf version 0.0 and read_sfcf_multi with several names per call not covered; file system replaced by the in-memory models.'),
    'C18': (True, 'symbolic execution of the openQCD binary readers with a symbolic file length L (typed-buffer model; the solver partitions all truncation offsets into path classes) and of the sfcf text readers with a symbolic cut position (one path per byte, numbers symbolic); SMT / normal-form equality with the complete-record prefix',
            'For every truncation length 0..len-1 of the truncated file (covered by the path partition, 3000+ classes) the reader either raises or returns exactly the observables of all complete records preceding the cut; '
            'the partial-read abstraction is justified by an AST scan of the current source on every run.',
            'openQCD binary formats and sfcf text formats (cuts in selected files of each layout, every byte); truncated json.gz / xml.gz / csv.gz archives are not applicable (gzip / rapidjson / lxml / pandas decide).'),
    'C04': (True, 'symbolic execution of Obs.__init__ with z3-integer configuration numbers (SMT: rejected iff not strictly increasing, range iff equally spaced) + structural invariant and type-closure assertion on every result of one step of every operator / producer; CrossHair (symbolic Python strings, z3) on the real constructors for the chain / covariance names',
            'Constructor: for all configuration numbers in the box the accept / reject decision, the stored list and the range-vs-list form are decided by the solver on every path; for all short name strings (2 names of <= 2 characters, 3 names of <= 1 character, covariance names of <= 4 characters) the constructor accepts exactly unique names of one ensemble / names without the separator (CrossHair: confirmed over all paths); all listed malformed requests are rejected; '
            'closure: every operator between Obs / CObs / int / float / complex in both orders and the other producers yield well-formed real or complex observables (the same invariant is asserted on every result in C01, C05, C07-C09, C11, C13, C17).',
            'Structure is enumerated (the solver decides values only in the constructor part); pickle outside; known finding: Obs ** complex returns a complex-valued Obs.'),
    'C16': (True, 'symbolic execution of Corr.GEVP / _GEVP_solver on symbolic matrix entries behind LAPACK contracts (eigh, cholesky, inv); SMT (QF_NRA) eigen-equation and ordering obligations; _sort_vectors on symbolic vectors with the determinant as its Leibniz polynomial: returned order maximises the overlap score over all permutations',
            'WIRING ONLY: every vector returned for state s at time t satisfies G(t) v = lambda G(t0) v on the symmetrised matrices with lambda the s-th largest eigenvalue of the contract; undefined slices and t <= t0 give None; invalid requests are rejected; prune = V^T G_sym V; eigenvector sorting (N = 2, 3): on every timeslice the returned order of the vectors maximises the overlap score with the reference timeslice over all permutations, the vectors themselves untouched.',
            'Not applicable to this technique (stated in DESIGN.md section 6): recovery of exact exponentials, agreement of the eigh and Cholesky solutions and the matrix-pencil method - statements about LAPACK output on specific matrices; vector_obs=True.'),
}

NOT_YET = 'check not built yet in this session (work in progress; see DESIGN.md section 4 for the plan)'


def main():
    props = [json.loads(l) for l in open(os.path.join(HERE, 'properties.jsonl'))]
    checks = []
    na = []
    for p in props:
        pid = p['id']
        t = TABLE.get(pid)
        if t and t[0]:
            checks.append(dict(
                property_id=pid,
                quick_cmd='./vcheck run %s --tier quick' % pid,
                thorough_cmd='./vcheck run %s --tier thorough' % pid,
                evidence_file='/verif/evidence/%s.json' % pid,
                replay_cmd_template='./vcheck replay {path}',
                engine='symx',
                level_claimed=dict(category='other', text=LEVEL_TEXT + t[2], design_ref='DESIGN.md section 4, ' + pid),
                level_note=t[3],
                technique=t[1]))
        else:
            na.append(dict(property_id=pid, reason=(t[1] if t else NOT_YET)))
    m = dict(
        version=1,
        setup_cmd='./vcheck setup',
        hooks=dict(guard='PYERRORS_VERIF', enable='no source hooks are needed: all interposition (numpy shim, contract stubs) is done from the harness process by '
                   'patching module namespaces of the imported /repo working tree', baseline_off_cmd='cd /repo && /venv/bin/python -m pytest -ra -q -p no:cacheprovider --timeout=900 --continue-on-collection-errors',
                   source_commits=[], add_only=True),
        engines=[dict(name='symx', path='/verif/symx', serves_properties=[c['property_id'] for c in checks],
                      kind_free_text='re-execution symbolic executor for numpy-object-array code on z3 Real/Int proxies; fresh z3 solver per query; '
                      'contract stubs for compiled numerics; concrete replay of every counterexample'),
                 dict(name='crosshair', path='/verif/symx/xhair.py', serves_properties=['C04'],
                      kind_free_text='crosshair-tool 0.0.110 (symbolic execution of Python with z3) on contracts in props/xh_*.py that call the real pyerrors constructors with symbolic strings; '
                      'only "Confirmed over all paths" counts as discharged, counterexamples are replayed as plain calls')],
        checks=checks,
        notes='Exit codes: 0 property held on everything explored; 1 replay-confirmed violation (VIOLATION line); 3 inconclusive / harness error. '
              'Known findings are listed in /verif/known_findings.json.',
        not_applicable=na)
    with open(os.path.join(HERE, 'MANIFEST.json'), 'w') as f:
        json.dump(m, f, indent=1)
    print('MANIFEST.json: %d checks, %d not_applicable' % (len(checks), len(na)))


if __name__ == '__main__':
    main()
