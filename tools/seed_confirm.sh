#!/bin/bash
# usage: tools/seed_confirm.sh <seed dir>  -- on a scratch copy of /repo: demo must pass without and fail with the patch; the full test-suite with the patch
# must show exactly the baseline's always-fail set.  Prints one summary line; leaves nothing behind.
set -u
dir=$(readlink -f "$1")
work=$(mktemp -d /tmp/seed_confirm_XXXX)
rsync -a --exclude .git /repo/ $work/
cd $work
run_demo() { env PYTHONPATH=$work PYTHONDONTWRITEBYTECODE=1 MPLBACKEND=Agg OMP_NUM_THREADS=1 timeout 900 /venv/bin/python "$dir/demo.py" > $work/.demo.log 2>&1; echo $?; }
d0=$(run_demo)
patch -p1 -s < "$dir/patch.diff" || { echo "$dir: patch failed"; rm -rf $work; exit 2; }
d1=$(run_demo)
env PYTHONDONTWRITEBYTECODE=1 MPLBACKEND=Agg OMP_NUM_THREADS=1 /venv/bin/python -m pytest -q -p no:cacheprovider --timeout=900 --continue-on-collection-errors --junitxml=$work/.junit.xml > $work/.tests.log 2>&1
res=$(python3 - $work/.junit.xml <<'PY'
import sys, json, xml.etree.ElementTree as ET
base = json.load(open('/root/.vp/BASELINE.json'))
root = ET.parse(sys.argv[1]).getroot()
bad, ok = set(), set()
for tc in root.iter('testcase'):
    name = '%s::%s' % (tc.get('classname'), tc.get('name'))
    if any(ch.tag in ('failure', 'error') for ch in tc):
        bad.add(name)
    elif not any(ch.tag == 'skipped' for ch in tc):
        ok.add(name)
lost = sorted(set(base['stable_pass']) - ok)
print('passed=%d failed=%d baseline_pass_lost=%s' % (len(ok), len(bad), lost))
PY
)
echo "$(basename $dir): demo_without=$d0 demo_with=$d1 tests_with_patch: $res"
cd /; rm -rf $work
