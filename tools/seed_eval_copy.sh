#!/bin/bash
# usage: tools/seed_eval_copy.sh <seed dir> <PROPERTY> [tier]  -- evaluates a seeded patch on a scratch copy of /repo (does not touch /repo)
set -u
dir=$(readlink -f "$1"); prop=$2; tier=${3:-quick}
work=$(mktemp -d /tmp/repo_eval_XXXX)
rsync -a --exclude .git /repo/ $work/
(cd $work && patch -p1 -s < "$dir/patch.diff") || { echo "patch failed"; rm -rf $work; exit 2; }
cd /verif && env VERIF_OUT=$work/.out PYTHONPATH="$work:/verif" PYTHONDONTWRITEBYTECODE=1 MPLBACKEND=Agg OMP_NUM_THREADS=1 .venv/bin/python -m symx.main run "$prop" --tier "$tier" --no-canaries > /tmp/seed_eval_$prop.log 2>&1
rc=$?
mkdir -p /tmp/seed_replays; cp $work/.out/replays/*.json /tmp/seed_replays/ 2>/dev/null
rm -rf $work
echo "exit=$rc violations=$(grep -c '^VIOLATION' /tmp/seed_eval_$prop.log)"; grep "^VIOLATION" -A2 /tmp/seed_eval_$prop.log | grep "harness=" | head -3 | cut -c1-250; grep "tier=" /tmp/seed_eval_$prop.log | cut -c1-200
