"""debug helper: run the jobs of one property sequentially and print per-job statistics
usage: python tools/profile_jobs.py C03 <harness-substring> [index] [tier]"""
import sys, time, json, importlib
sys.path.insert(0, '/repo'); sys.path.insert(0, '/verif')
from symx import runner
pid = sys.argv[1]; m = importlib.import_module('props.' + pid.lower())
sel = sys.argv[2]; idx = int(sys.argv[3]) if len(sys.argv) > 3 and sys.argv[3] != '-' else None
tier = sys.argv[4] if len(sys.argv) > 4 else 'quick'
js = [j for j in m.jobs(tier, 0) if sel in j['harness']]
if idx is not None:
    js = [js[idx]]
for j in js:
    j['pid'] = pid; j['opts'] = dict(getattr(m, 'OPTS', {}), **(j.get('opts') or {}))
    import os
    j['opts'].update(json.loads(os.environ.get('XOPTS', '{}')))
    t = time.time(); R = runner.run_job(j)
    print(j['harness'], json.dumps(j['params'], default=str)[:150], 'paths', R['paths'], 'obl', R['obligations'], 'dis', R['discharged'], 'viol', len(R['violations']), 'inc', len(R['inconclusive']), 'solver', round(R['solver_s'], 1), 'wall', round(time.time() - t, 1)); sys.stdout.flush()
    for i in R['inconclusive'][:3]:
        print('   ', {k: str(v)[:300] for k, v in i.items() if k != 'trace'})
        if i.get('trace'): print(i['trace'][-1500:])
    for i in R['violations'][:2]:
        print('   V', {k: str(v)[:300] for k, v in i.items() if k not in ('values',)})
