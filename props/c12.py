"""C12 dobs / pobs XML export and import are mutually inverse."""
import json as pyjson
import types

import numpy as np
import z3

from symx import core, lib
from symx.core import SV, SB, tz
from props import c11

PROPERTY = 'C12'
OPTS = dict(timeout=60000, maxpaths=1500)
MODS = ('pyerrors.obs', 'pyerrors.covobs', 'pyerrors.input.dobs')


def install(cx):
    """text channel: '%1.16e' % x followed by the JSON number parser is the identity on doubles. Symbolic numbers are printed as
    injective tag doubles and mapped back to their terms at the parser boundary (fields printed with 15 digits are matched to the
    nearest tag: treated as exact, flagged in the evidence)."""
    import pyerrors.input.dobs as D
    lib.sym_env(cx, *MODS)
    fs = c11.MemFS()
    cx.patch(D, 'gzip', types.SimpleNamespace(open=fs.gzopen))
    cx.patch(D, 'open', fs.open)
    if cx.mode != 'sym':
        return fs
    tags, byterm = {}, {}

    def sv_float(self):
        t = z3.simplify(self.t)
        c = core.const_of(t)
        if c is not None:
            return float(c)
        k = t.get_id()
        if k not in byterm:
            f = 1.0 + (len(tags) + 1) * 2.0 ** -30
            tags[f] = t
            byterm[k] = f
            cx.keep.append(t)
        return byterm[k]
    cx.patch(SV, '__float__', sv_float)
    keys = []

    def back(x):
        if isinstance(x, float) and 1.0 < x < 1.5:
            if x in tags:
                return SV(tags[x])
            k = round((x - 1.0) * 2.0 ** 30)
            f = 1.0 + k * 2.0 ** -30
            if f in tags and abs(f - x) < 1e-12:
                return SV(tags[f])
        return x

    def loads(s):
        return [back(x) for x in pyjson.loads(s)]
    cx.patch(D, 'json', types.SimpleNamespace(loads=loads))
    from symx.npshim import NPShim
    shim = NPShim()      # a private shim for dobs.py (the overrides below must not leak into obs.py)
    cx.patch(D, 'np', shim)

    def unique(x):
        xa = np.asarray(x, dtype=object).ravel()
        if not any(isinstance(v, SV) for v in xa):
            return np.unique(np.asarray(x, dtype=float))
        alleq = SB(z3.And(*[tz(xa[i]) == tz(xa[0]) for i in range(1, len(xa))])) if len(xa) > 1 else True
        if bool(alleq):
            return np.array([xa[0]], dtype=object)
        return np.array([xa[0], xa[1]], dtype=object)      # the call site only uses len(h) == 1
    shim.__dict__['unique'] = unique
    shim.__dict__['average'] = lambda x, *a, **k: sum(x) / len(x)
    return fs


def nonzero_samples(cx, objs):
    """precondition of the main harness: no written number is exactly zero (i.e. no sample equals the central value and none is 0).
    The zero cases are the subject of harness `zeros`."""
    conds = []
    for o in objs:
        for n in o.deltas:
            for d in o.deltas[n]:
                conds.append(d + o.r_values[n] - o.value != 0)
                conds.append(d + o.r_values[n] != 0)
        for cn in o.covobs:
            for g in np.asarray(o.covobs[cn].grad, dtype=object).ravel():
                conds.append(g != 0)
    cx.assume_all(conds, 'no written number is exactly zero')


def mk(cx, tag, kind):
    return c11.mk_rich(cx, tag, kind)


def h_dobs(cx, kinds, sep=True):
    import pyerrors as pe
    import pyerrors.input.dobs as D
    fs = install(cx)
    objs = [mk(cx, 'o%d' % i, k) for i, k in enumerate(kinds)]
    nonzero_samples(cx, objs)
    s = D.create_dobs_string(objs, 'name', who='me', symbol=['s%d' % i for i in range(len(objs))])
    r = D.import_dobs_string(s.encode('utf-8'), separator_insertion=sep)
    if not cx.expect(len(r) == len(objs), 'count'):
        return
    for i, (ri, oi) in enumerate(zip(r, objs)):
        check_same(cx, ri, oi, 'dobs[%d:%s]' % (i, kinds[i]))
    # files, gz on / off
    for gz in (True, False):
        D.write_dobs(objs, 'mem_dobs', 'name', who='me', gz=gz)
        r = D.read_dobs('mem_dobs', gz=gz)
        for i, (ri, oi) in enumerate(zip(r, objs)):
            check_same(cx, ri, oi, 'dobs-file(gz=%s)[%d]' % (gz, i))


def check_same(cx, r, o, label):
    """central value, chains, configuration numbers, fluctuations, replica means, covariance inputs with gradients"""
    import pyerrors as pe
    mc_o = [n for n in o.names if n not in o.covobs]
    mc_r = [n for n in r.names if n not in r.covobs]
    if not cx.expect(sorted(mc_r) == sorted(mc_o), label + ':chains', '%s vs %s' % (mc_r, mc_o)):
        return
    cx.prove_eq(r.value, o.value, label + ':value')
    for n in mc_o:
        if not cx.expect(list(r.idl[n]) == list(o.idl[n]), label + ':every configuration survives[%s]' % n, '%s vs %s' % (list(r.idl[n]), list(o.idl[n]))):
            continue
        cx.expect(type(r.idl[n]) is type(o.idl[n]), label + ':idl-form[%s]' % n)
        cx.prove_eq(list(r.deltas[n]), list(o.deltas[n]), label + ':deltas[%s]' % n)
        cx.prove_eq(r.r_values[n], o.r_values[n], label + ':r_value[%s]' % n)
        cx.expect(r.shape[n] == o.shape[n], label + ':shape[%s]' % n)
    cx.expect(sorted(r.covobs) == sorted(o.covobs), label + ':covariance inputs', '%s vs %s' % (sorted(r.covobs), sorted(o.covobs)))
    for cn in o.covobs:
        if cn in r.covobs:
            cx.prove_eq(list(np.asarray(r.covobs[cn].grad, dtype=object).ravel()), list(np.asarray(o.covobs[cn].grad, dtype=object).ravel()), label + ':grad[%s]' % cn)
            cx.expect(np.allclose(np.asarray(r.covobs[cn].cov, dtype=float), np.asarray(o.covobs[cn].cov, dtype=float), rtol=1e-13, atol=0), label + ':cov[%s]' % cn)


def h_pobs(cx, kinds, sepmode):
    import pyerrors as pe
    import pyerrors.input.dobs as D
    fs = install(cx)
    objs = [mk(cx, 'o%d' % i, k) for i, k in enumerate(kinds)]
    nonzero_samples(cx, objs)
    for gz in (True, False):
        D.write_pobs(objs, 'mem_pobs', 'name', gz=gz)
        ename = objs[0].e_names[0]
        sep = {'int': len(ename), 'str': 'r', 'none': None}[sepmode]
        r = D.read_pobs('mem_pobs', gz=gz, separator_insertion=sep)
        if not cx.expect(len(r) == len(objs), 'count'):
            return
        for i, (ri, oi) in enumerate(zip(r, objs)):
            if sepmode == 'none':
                # documented: the separator is removed from the replica names and not re-inserted
                cx.expect(sorted(ri.names) == sorted(n.replace('|', '') for n in oi.names), 'pobs(none):names[%d]' % i)
                continue
            check_same(cx, ri, oi, 'pobs(gz=%s,%s)[%d:%s]' % (gz, sepmode, i, kinds[i]))


def h_zeros(cx, n, free):
    """the zero / non-zero patterns of the written numbers of the first `free` samples of one observable are explored as paths:
    every configuration must survive"""
    import pyerrors as pe
    import pyerrors.input.dobs as D
    install(cx)
    o, _ = lib.mk_obs(cx, 'z', {'ens|r1': list(range(1, n + 1))})
    if cx.mode == 'sym':
        for d in list(o.deltas['ens|r1'])[free:]:
            cx.assume(d + o.r_values['ens|r1'] - o.value != 0)
            cx.assume(d + o.r_values['ens|r1'] != 0)
    s = D.create_dobs_string([o], 'name', who='me')
    r = D.import_dobs_string(s.encode('utf-8'))[0]
    check_same(cx, r, o, 'zeros')


def h_sep(cx):
    """replica-separator treatment of import_dobs_string (concrete names, symbolic data)"""
    import pyerrors as pe
    import pyerrors.input.dobs as D
    install(cx)
    o, _ = lib.mk_obs(cx, 'a', {'A654|r001': [1, 2, 3, 4, 5], 'A654|r002': [1, 2, 3, 4, 5, 6]})
    nonzero_samples(cx, [o])
    s = D.create_dobs_string([o], 'name', who='me')
    cx.expect('A654r001' in s and 'A654|r001' not in s, 'separator removed in the file')
    for sep, names in ((True, ['A654|r001', 'A654|r002']), (4, ['A654|r001', 'A654|r002']), ('r0', ['A654|r001', 'A654|r002']), (None, ['A654r001', 'A654r002'])):
        r = D.import_dobs_string(s.encode('utf-8'), separator_insertion=sep)[0]
        cx.expect(sorted(r.names) == names, 'names(separator_insertion=%r)' % (sep,), str(r.names))
        if sep is not None:
            check_same(cx, r, o, 'sep=%r' % (sep,))


HARNESSES = dict(dobs=h_dobs, pobs=h_pobs, zeros=h_zeros, sep=h_sep)


def jobs(tier, seed):
    J = []

    def add(h, **p):
        J.append(dict(harness=h, params=p))
    add('dobs', kinds=['range'])
    add('dobs', kinds=['strided', 'irregular'])          # different configuration subsets in one file
    add('dobs', kinds=['replicas', 'range'])
    add('dobs', kinds=['rangelike', 'rangelike2'])
    add('dobs', kinds=['odd', 'even'])                   # same stride, different offsets on a shared replica
    add('dobs', kinds=['jack', 'range'])
    add('pobs', kinds=['rangelike', 'rangelike'], sepmode='int')
    add('dobs', kinds=['multi'])
    add('dobs', kinds=['covmix', 'range', 'cov'])
    if tier == 'thorough':
        add('dobs', kinds=['multi', 'covmix'])
    add('pobs', kinds=['range'], sepmode='int')
    add('pobs', kinds=['replicas', 'replicas'], sepmode='int')
    add('pobs', kinds=['sep'], sepmode='str')
    add('pobs', kinds=['range'], sepmode='none')
    add('zeros', n=5, free=2 if tier == 'quick' else 5)
    add('sep')
    return J


def apply_canary(name):
    from symx.mutate import mutate
    if name == 'mean-wrong-column':
        return mutate('pyerrors.input.dobs', 'import_dobs_string', 'tmp[j] = deltad[name][i][j] + mean[i]', 'tmp[j] = deltad[name][i][j] + mean[0]')
    if name == 'grad-transposed':
        return mutate('pyerrors.input.dobs', 'import_dobs_string', 'gradd[cname] = grad.T', 'gradd[cname] = grad.T[::-1]')
    raise KeyError(name)


def _cj(h, **p):
    return lambda tier, seed: [dict(harness=h, params=p)]


CANARIES = [
    dict(name='mean-wrong-column', what='mean added to the wrong column', quick=True, jobs=_cj('dobs', kinds=['strided', 'irregular'])),
    dict(name='grad-transposed', what='gradient columns reversed', jobs=_cj('dobs', kinds=['covmix', 'range', 'cov'])),
]

META = dict(
    explanation='C12: create_dobs_string / import_dobs_string / write_dobs / read_dobs and write_pobs / read_pobs (through in-memory files, real lxml on the concrete text) run on symbolic values, '
                'fluctuations and gradients through a text channel in which every symbolic number is printed as an injective tag double and mapped back at the parser boundary. '
                'The writer\'s `if num == 0` and the reader\'s `!= 0.` are symbolic branches. Decided: every central value, chain, configuration number, fluctuation, replica mean and covariance '
                'gradient of every re-imported observable equals the original; all separator_insertion modes on concrete names.',
    bounds='lists of 1-3 observables on 1-2 ensembles x 1-2 replicas with range / strided / irregular lists differing between the observables of a file, covariance inputs of dimension 1-3; gz on/off; '
           'main harnesses under the precondition that no written number is exactly zero, harness `zeros` explores all zero patterns of a 5-configuration observable.',
    outside=['gzip and the file system (in-memory)', 'printf / strtod: contract "identity on doubles"; cov and grad are printed with 15 digits (%1.14e), matched to the nearest tag: not bit-exact in reality',
             'NaN data'],
    stubs=['numpy shim', "text channel ('%e' formatting + JSON number parsing) = identity via tag doubles", 'open / gzip.open -> in-memory files'],
    assumptions=['no written sample is exactly zero in harnesses dobs / pobs / sep'],
)
