"""C09 Roots and integrals of observable-dependent functions propagate errors exactly."""
import numpy as np

from symx import core, lib, contracts, dual
from symx.core import fn, SV

PROPERTY = 'C09'
OPTS = dict(timeout=60000, maxpaths=50)
MODS = ('pyerrors.obs', 'pyerrors.covobs', 'pyerrors.roots', 'pyerrors.integrate')


def _anp(cx):
    """function namespace usable by the test functions in both modes"""
    import autograd.numpy as anp
    if cx.mode == 'conc':
        return anp
    import types
    return types.SimpleNamespace(exp=lambda v: fn('exp', v), log=lambda v: fn('log', v), tanh=lambda v: fn('tanh', v), sin=lambda v: fn('sin', v),
                                 cos=lambda v: fn('cos', v), sqrt=lambda v: fn('sqrt', v), sinh=lambda v: fn('sinh', v), cosh=lambda v: fn('cosh', v))


# function families f(x, d): (definition, branch selector for the root, closed-form inverse or None)
def FAMILIES(A):
    return {
        'square': (lambda x, d: x * x - d, lambda r: r > 0, lambda v: fn('sqrt', v[0])),
        'cubic': (lambda x, d: x * x * x + x - d, None, None),
        'linear2': (lambda x, d: d[0] * x - d[1], None, lambda v: v[1] / v[0]),
        'exp': (lambda x, d: A.exp(-x) - d, None, None),
        'tanh': (lambda x, d: A.tanh(x) - d, None, None),
        'ratio': (lambda x, d: x * d[0] + d[1] * d[1] - 3 * x, None, lambda v: v[1] * v[1] / (3 - v[0])),
        'invsq': (lambda x, d: 1 / (x * x) - d, lambda r: r > 0, lambda v: 1 / fn('sqrt', v[0])),
    }


def _mkd(cx, descs):
    obs, specs = [], []
    for i, d in enumerate(descs):
        if isinstance(d, dict):
            o, s = lib.mk_obs(cx, 'd%d' % i, d)
        else:
            o, s = lib.mk_covobs(cx, 'd%d' % i, d[1], d[2])
        obs.append(o)
        specs.append(s)
    return obs, specs


def h_root(cx, family, descs):
    import pyerrors as pe
    lib.sym_env(cx, *MODS)
    contracts.install_scipy(cx, 'pyerrors.roots', **{'optimize.fsolve': contracts.fsolve})
    A = _anp(cx)
    f, selector, inverse = FAMILIES(A)[family]
    obs, specs = _mkd(cx, descs)
    vector = len(obs) > 1
    if cx.mode == 'sym':
        cx.root_selector = selector
    guess = 1.3
    d_arg = obs if vector else obs[0]
    ff = f if vector else (lambda x, d: f(x, d))
    res = pe.find_root(d_arg, f, guess=guess)
    lib.check_wellformed(cx, res, 'root')
    dv = [s.value for s in specs]
    dval = dv if vector else dv[0]
    x = res.value
    # (1) the central value is a root
    cx.prove_eq(f(x, dval), 0, 'f(x, d) = 0')
    # (2) implicit function theorem on every fluctuation / gradient: f_x dx + sum_k f_dk dd_k = 0
    fx = dual.partials(lambda v: f(v[0], dval), [x])[0]
    if vector:
        fd = dual.partials(lambda v: f(x, list(v)), dv)
    else:
        fd = dual.partials(lambda v: f(x, v[0]), dv)
    spec_lin = lib.derived_spec(lambda v: sum(fd[k] * v[k] for k in range(len(v))), specs)      # sum_k f_dk * d_k (linear, so its fluctuations are sum_k f_dk dd_k)
    got = lib.spec_of_obs(res)
    for n in spec_lin.idl:
        if not cx.expect(n in got.idl and got.idl[n] == spec_lin.idl[n], 'chains[%s]' % n):
            continue
        for c in spec_lin.idl[n]:
            cx.prove_eq(fx * got.deltas[n][c] + spec_lin.deltas[n][c], 0, 'f_x dx + f_d dd = 0 [%s][%d]' % (n, c))
    for cn in spec_lin.grads:
        for k in range(len(spec_lin.grads[cn])):
            cx.prove_eq(fx * got.grads[cn][k] + spec_lin.grads[cn][k], 0, 'f_x dx + f_d dd = 0 grad[%s][%d]' % (cn, k))
    cx.expect(sorted(got.idl) == sorted(spec_lin.idl) and sorted(got.grads) == sorted(spec_lin.grads), 'same chains as d')
    # (3) explicitly invertible: equals the inverse applied directly
    if inverse is not None:
        direct = lib.derived_spec(inverse, specs)
        lib.compare(cx, res, direct, 'equals-direct-inverse', wellformed=False, check_r=False)


# integrand families: f(p, x), antiderivative F(p, x)
def INTEGRANDS(A):
    return {
        'poly': (lambda p, x: p[0] + p[1] * x, lambda p, x: p[0] * x + p[1] * x * x / 2),
        'exp': (lambda p, x: p[0] * A.exp(p[1] * x), lambda p, x: p[0] / p[1] * A.exp(p[1] * x)),
        'sin': (lambda p, x: p[0] * A.sin(p[1] * x), lambda p, x: -p[0] / p[1] * A.cos(p[1] * x)),
        'poly3': (lambda p, x: p[0] * x * x + p[1] * x + p[2], lambda p, x: p[0] * x * x * x / 3 + p[1] * x * x / 2 + p[2] * x),
    }


def h_quad(cx, family, pdesc, adesc, bdesc):
    """pdesc: list of layouts / ('cov', ..) / numbers for the parameters; adesc / bdesc: layout or number for the limits"""
    import pyerrors as pe
    import pyerrors.integrate as I
    lib.sym_env(cx, *MODS)
    A = _anp(cx)
    f, F = INTEGRANDS(A)[family]

    def mk(desc, tag):
        if isinstance(desc, (int, float)):
            return desc, lib.const_spec(desc), False
        if isinstance(desc, dict):
            o, s = lib.mk_obs(cx, tag, desc)
        else:
            o, s = lib.mk_covobs(cx, tag, desc[1], desc[2])
        return o, s, True
    P = [mk(d, 'p%d' % i) for i, d in enumerate(pdesc)]
    # 'p<i>' as a limit: the very same observable object as parameter i (it then occurs twice among the observables quad differentiates with respect to)
    a, sa, a_obs = P[int(adesc[1:])] if isinstance(adesc, str) else mk(adesc, 'a')
    b, sb, b_obs = P[int(bdesc[1:])] if isinstance(bdesc, str) else mk(bdesc, 'b')
    if cx.mode == 'sym':
        cx.patch(pe.Obs, '__hash__', lambda self: id(self) & 0xFFFFFFFF)      # hashing of symbolic data is not modelled: distinct objects get distinct hashes
    pv = [s.value for _, s, _ in P]
    calls = []
    if cx.mode == 'sym':
        obs_idx = [i for i, (_, _, isobs) in enumerate(P) if isobs]

        def squad(g, lo, hi, **kw):
            """contract of scipy.integrate.quad for integrands with a registered antiderivative: returns F(hi) - F(lo).
            The integrand handed over is checked against d/dx of that antiderivative at a symbolic point."""
            k = len(calls)
            lo = lo.value if isinstance(lo, pe.Obs) else lo       # scipy converts the limits with float()
            hi = hi.value if isinstance(hi, pe.Obs) else hi
            if k == 0:
                AD = lambda x: F(pv, x)
            else:
                i = obs_idx[k - 1]
                AD = lambda x, i=i: dual.partials(lambda q: F(list(q), x), pv)[i]      # d/dp_i of the antiderivative
            t = cx.real('probe_x')
            want = dual.partials(lambda q: AD(q[0]), [t])[0]
            got = np.asarray(g(t), dtype=object).ravel()[0]
            cx.prove_eq(got, want, 'integrand[%d] handed to quad = d/dx antiderivative' % k)
            calls.append((lo, hi))
            return (AD(hi) - AD(lo), 0.0)
        cx.patch(I, 'squad', squad)
        squad.__code__ = squad.__code__     # keep introspection in quad() working on the real function
        import scipy.integrate
        cx.patch(I, 'squad', _Squad(squad, scipy.integrate.quad))
    out = I.quad(f, [o for o, _, _ in P], a, b)
    anyobs = any(x[2] for x in P) or a_obs or b_obs
    if not anyobs:
        cx.expect(isinstance(out, tuple) and not isinstance(out[0], pe.Obs), 'plain-numbers: scipy result returned unchanged')
        cx.prove_eq(out[0], F(pv, sb.value) - F(pv, sa.value), 'plain-numbers: value')
        return
    res = out[0]
    lib.check_wellformed(cx, res, 'quad')
    ops = [s for _, s, isobs in P if isobs] + ([sa] if a_obs else []) + ([sb] if b_obs else [])

    def whole(x):
        it = iter(x)
        p = [next(it) if isobs else s.value for _, s, isobs in P]
        lo = next(it) if a_obs else sa.value
        hi = next(it) if b_obs else sb.value
        return F(p, hi) - F(p, lo)
    spec = lib.derived_spec(whole, ops)
    lib.compare(cx, res, spec, 'quad=antiderivative', wellformed=False, check_r=False)
    if cx.mode == 'sym':
        for k, (lo, hi) in enumerate(calls):
            cx.prove_eq(lo, sa.value, 'quad call %d: lower limit' % k)
            cx.prove_eq(hi, sb.value, 'quad call %d: upper limit' % k)


class _Squad:
    """callable stub that still exposes the introspection attributes quad() reads from scipy's function"""
    def __init__(self, f, real):
        self.f = f
        self.__code__ = real.__code__
        self.__defaults__ = real.__defaults__

    def __call__(self, *a, **k):
        return self.f(*a, **k)


HARNESSES = dict(root=h_root, quad=h_quad)


def jobs(tier, seed):
    J = []

    def add(h, **p):
        J.append(dict(harness=h, params=p))
    E = {'e|r1': [1, 2, 3, 4, 5]}
    Ei = {'e|r1': [1, 2, 4, 5, 7, 8]}
    F_ = {'f|r1': [2, 4, 6, 8, 10]}
    M = {'e|r1': [1, 2, 3, 4, 5], 'e|r2': [1, 2, 3, 4, 5, 6]}
    CV = ('cov', 'cv', 2)
    for fam in ('square', 'cubic', 'exp', 'tanh', 'invsq'):
        for d in (E, Ei, M, CV):
            add('root', family=fam, descs=[d])
    for fam in ('linear2', 'ratio'):
        for ds in ([E, E], [E, F_], [Ei, CV], [M, E]):
            add('root', family=fam, descs=ds)
    for fam, np_ in (('poly', 2), ('exp', 2), ('sin', 2), ('poly3', 3)):
        cases = [
            ([E] * np_, 0.5, 2.0), ([E, F_, Ei][:np_], 0.5, 2.0), ([E, 1.5, 0.25][:np_], 0.5, 2.0), ([1.5, E, 0.75][:np_], E, 2.0),
            ([E, F_, 0.5][:np_], F_, Ei), ([0.5, 1.5, 2.0][:np_], E, F_), ([0.5, 1.5, 2.0][:np_], 0.0, E), ([CV, E, M][:np_], 0.5, CV),
            ([0.5, 1.5, 2.0][:np_], 0.25, 1.75),
            ([2, E, F_][:np_], 0.5, 2.0), ([3, 0.5, E][:np_], E, 2),
            ([E, F_, 0.5][:np_], 0.5, 'p0'), ([CV, E, 1.0][:np_], 'p0', 2.0), ([E, E, E][:np_], 'p1', 'p0'),        # the same observable as parameter and as limit          # plain Python ints among the parameters / limits (numpy infers dtypes from first elements)
        ]
        for p, a, b in cases:
            add('quad', family=fam, pdesc=p, adesc=a, bdesc=b)
    if tier == 'thorough':
        # richer layouts for every family: more replicas, irregular lists, limits in descending order, the same observable as limit and parameter
        M3 = {'e|r1': [1, 2, 3, 4, 5], 'e|r2': [2, 4, 6, 8, 10, 12], 'e|r3': [1, 2, 4, 5, 7]}
        G = {'g|r1': [3, 4, 5, 6, 7, 8]}
        for fam in ('square', 'cubic', 'exp', 'tanh', 'invsq'):
            for d in (M3, G, ('cov', 'cw', 1)):
                add('root', family=fam, descs=[d])
        for fam in ('linear2', 'ratio'):
            for ds in ([M3, G], [CV, CV], [G, M], [F_, Ei]):
                add('root', family=fam, descs=ds)
        for fam, np_ in (('poly', 2), ('exp', 2), ('sin', 2), ('poly3', 3)):
            for p, a, b in (([M3, G, E][:np_], 2.0, 0.5), ([E, E, E][:np_], Ei, E), ([G, 0.5, M][:np_], M3, G), ([CV, CV, 0.5][:np_], CV, 1.5), ([0.5, M3, 1.0][:np_], 1.5, M3)):
                add('quad', family=fam, pdesc=p, adesc=a, bdesc=b)
    return J


def apply_canary(name):
    from symx.mutate import mutate
    if name == 'root-sign':
        return mutate('pyerrors.roots', 'find_root', 'deriv = - da / dx', 'deriv = da / dx')
    if name == 'bsign':
        return mutate('pyerrors.integrate', 'quad', 'bsign = [-1, 1]', 'bsign = [1, 1]')
    if name == 'grad-order':
        return mutate('pyerrors.integrate', 'quad', 'pobs + bobs, man_grad=derivint', 'bobs + pobs, man_grad=derivint')
    if name == 'deriv-interval':
        return mutate('pyerrors.integrate', 'quad', 'derivint.append(squad(ifunc, bounds[0], bounds[1], **ikwargs)[0])', 'derivint.append(squad(ifunc, 0, bounds[1], **ikwargs)[0])')
    raise KeyError(name)


def _cj(h, **p):
    return lambda tier, seed: [dict(harness=h, params=p)]


_E = {'e|r1': [1, 2, 3, 4, 5]}
CANARIES = [
    dict(name='root-sign', what='sign of -da/dx in find_root', quick=True, jobs=_cj('root', family='cubic', descs=[_E])),
    dict(name='bsign', what='sign of the lower-limit term', jobs=_cj('quad', family='poly', pdesc=[1.5, _E], adesc=_E, bdesc=2.0)),
    dict(name='grad-order', what='order of parameters and limits in man_grad', jobs=_cj('quad', family='poly', pdesc=[_E, 1.5], adesc={'f|r1': [2, 4, 6, 8, 10]}, bdesc=2.0)),
    dict(name='deriv-interval', what='derivative integrals over the wrong interval', jobs=_cj('quad', family='poly', pdesc=[_E, _E], adesc=0.5, bdesc=2.0)),
]

META = dict(
    explanation='C09: find_root (scalar and vector d) and integrate.quad run on symbolic samples / gradients behind contract stubs: fsolve returns some root of f(x, d), '
                'scipy.integrate.quad returns F(b) - F(a) for the registered antiderivative and checks the integrand it was handed at a symbolic point. Decided: f(x,d)=0 at '
                'the central values, f_x dx + f_d dd = 0 for every fluctuation and covariance gradient, equality with the directly applied inverse for invertible families; '
                'for quad: value and every fluctuation equal the one-shot propagation of F(p,b) - F(p,a) (derivative under the integral, +/- integrand at the limits), limits '
                'handed to every quad call, and the plain-number case returns scipy\'s tuple unchanged.',
    bounds='root families x^2-d, x^3+x-d, exp(-x)-d, tanh(x)-d, 1/x^2-d (scalar d) and d0 x - d1, x d0 + d1^2 - 3x (vector d); integrands p0+p1 x, p0 exp(p1 x), p0 sin(p1 x), '
           'p0 x^2+p1 x+p2; any subset of parameters and limits observable; chains of 5-6 configurations on 1-2 replicas / ensembles, one covariance input of dimension 2.',
    outside=['fsolve / QUADPACK numerics', 'closed-form inverse for exp/tanh (would need exp(log d) = d as a lemma): only the implicit-function rule is decided there'],
    stubs=['numpy shim', 'scipy.optimize.fsolve -> fresh root with f(r,d)=0 (+ branch selector r>0 where the guess implies it)', 'scipy.integrate.quad -> antiderivative contract', 'autograd.jacobian -> dual numbers'],
    assumptions=['d0 + eps != 0 in find_root (the code multiplies by (d0+eps)/(d0+eps))'],
)
