"""C17: Hadrons hdf5 correlator files (read_hd5 / read_meson_hd5) on a structural model of h5py.

sym mode: `h5py.File`, `os.listdir` and the module global `np` of pyerrors.input.hadrons are replaced by a model in which a file is a tree of groups with
attributes and a dataset `corr` of T complex numbers, each real / imaginary part a distinct symbol (a mis-assignment can never cancel).  What is executed is
the repository's logic: which files belong to the stem, their order and configuration numbers (numeric, not lexicographic), the idl selection and the spacing
test, the choice of the entry by attributes or index, the transposition (timeslice t of configuration c), the real / imaginary / complex part, the tag.
conc mode (replay): the same file set is written with the real h5py into a temporary directory and read with the unstubbed reader."""
import itertools
import os
import shutil
import tempfile
import types

import numpy as np

from symx import core, lib
from symx.core import SV

MODS = ('pyerrors.obs', 'pyerrors.covobs', 'pyerrors.correlators', 'pyerrors.input.hadrons')
GAMMAS = [('Gamma5', 'Gamma5'), ('Gamma5', 'GammaT'), ('GammaX', 'GammaX')]


# ---------------------------------------------------------------------------------- model of the pieces of h5py / numpy the reader uses
class CArr:
    """array of complex numbers kept as (re, im) object arrays; supports what the reader does with the result of `raw[:].view('complex')`"""
    def __init__(self, re, im):
        self.re = np.asarray(re, dtype=object)
        self.im = np.asarray(im, dtype=object)

    @property
    def T(self):
        return CArr(self.re.T, self.im.T)

    @property
    def real(self):
        return self.re

    @property
    def imag(self):
        return self.im

    @property
    def shape(self):
        return self.re.shape

    def __len__(self):
        return len(self.re)

    def __iter__(self):
        for a, b in zip(self.re, self.im):
            yield CArr(a, b)


class _Raw:
    def __init__(self, re, im):
        self.re, self.im = re, im

    def view(self, t):
        if t not in ('complex', complex, np.complex128):
            raise core.Realize('view(%r) is not modelled' % (t,))
        return CArr(self.re, self.im)


class _Dataset:
    def __init__(self, re, im):
        self.re, self.im = re, im

    def __getitem__(self, k):
        if k != slice(None) and k != ():
            raise core.Realize('dataset slicing %r is not modelled' % (k,))
        return _Raw(self.re, self.im)


class _Node:
    def __init__(self, tree):
        self.tree = tree            # dict: children (dict) / '__attrs__' / '__data__'

    @property
    def attrs(self):
        return dict(self.tree.get('__attrs__', {}))

    def keys(self):
        return [k for k in self.tree if not k.startswith('__')]

    def _walk(self, key):
        t = self.tree
        for part in key.strip('/').split('/'):
            if not isinstance(t, dict) or part not in t or part.startswith('__'):
                return None
            t = t[part]
        return t

    def __contains__(self, key):
        return self._walk(key) is not None

    def __getitem__(self, key):
        t = self._walk(key)
        if t is None:
            raise KeyError(key)
        if '__data__' in t:
            return _Dataset(*t['__data__'])
        return _Node(t)

    def close(self):
        pass


class NPHad(types.ModuleType):
    """numpy for the reader: stacking of the per-file complex arrays stays symbolic, everything else is numpy"""
    def __init__(self):
        super().__init__('np_hadrons')

    def __getattr__(self, k):
        return getattr(np, k)

    @staticmethod
    def array(a, *args, **kw):
        if isinstance(a, list) and a and all(isinstance(x, CArr) for x in a):
            return CArr(np.array([x.re for x in a], dtype=object), np.array([x.im for x in a], dtype=object))
        return np.array(a, *args, **kw)


# ---------------------------------------------------------------------------------- harness
def _fileset(cx, cfgs, T, nent):
    """symbols: name -> value; trees per configuration"""
    trees = {}
    data = {}
    for c in cfgs:
        ent = {}
        for e in range(nent):
            re = [cx.real('h_c%d_e%d_t%d_re' % (c, e, t)) for t in range(T)]
            im = [cx.real('h_c%d_e%d_t%d_im' % (c, e, t)) for t in range(T)]
            data[(c, e)] = (re, im)
            ent['meson_%d' % e] = {'__attrs__': {'gamma_snk': [GAMMAS[e][0].encode()], 'gamma_src': [GAMMAS[e][1].encode()]}, 'corr': {'__data__': (re, im)}}
        trees[c] = {'meson': ent}
    return trees, data


def _write_real(dirname, stem, trees, data, T, nent, extra):
    import h5py
    dt = np.dtype([('re', '<f8'), ('im', '<f8')])
    for c in trees:
        with h5py.File(os.path.join(dirname, '%s.%d.h5' % (stem, c)), 'w') as f:
            for e in range(nent):
                g = f.create_group('meson/meson_%d' % e)
                g.attrs.create('gamma_snk', [GAMMAS[e][0].encode()])
                g.attrs.create('gamma_src', [GAMMAS[e][1].encode()])
                arr = np.zeros(T, dtype=dt)
                arr['re'] = np.asarray(data[(c, e)][0], dtype=float)
                arr['im'] = np.asarray(data[(c, e)][1], dtype=float)
                g.create_dataset('corr', data=arr)
    for name in extra:
        with h5py.File(os.path.join(dirname, name), 'w') as f:
            f.create_group('meson/meson_0')


def h_hd5(cx, cfgs, T=2, nent=2, entry=0, how='attrs', part='real', idl=None, perm=0, extra=(), expect_error=None, api='read_hd5'):
    """cfgs: configuration numbers of the files 'data.<cfg>.h5'; entry: which of the `nent` entries is requested, by attributes (gammas) or by index;
    idl: optional selection (list / range spec [a, b, step]); perm: which permutation of the directory listing the operating system returns;
    extra: further file names in the directory that do not belong to the stem"""
    import pyerrors as pe
    import pyerrors.input.hadrons as H
    lib.sym_env(cx, *MODS)
    trees, data = _fileset(cx, cfgs, T, nent)
    stem = 'data'
    names = ['%s.%d.h5' % (stem, c) for c in cfgs] + list(extra)
    perms = list(itertools.permutations(range(len(names)))) if len(names) <= 5 else None
    if perms is not None:
        order = [names[i] for i in perms[perm % len(perms)]]
    else:
        order = names[perm % len(names):] + names[:perm % len(names)]
    tmp = None
    if cx.mode == 'sym':
        base = '/hadrons_model'

        def listdir(p):
            if os.path.normpath(p) != base:
                raise core.Realize('listdir(%s)' % p)
            return list(order)

        def h5file(p, mode='r'):
            d, n = os.path.split(p)
            if os.path.normpath(d) != base or not n.startswith(stem + '.') or n in extra:
                raise core.Realize('h5py.File(%s)' % p)
            return _Node(trees[int(n[len(stem) + 1:-3])])
        cx.patch(H, 'os', types.SimpleNamespace(listdir=listdir, path=os.path))
        cx.patch(H, 'h5py', types.SimpleNamespace(File=h5file))
        cx.patch(H, 'np', NPHad())
    else:
        tmp = tempfile.mkdtemp(prefix='verif_hd5_')
        base = tmp
        _write_real(tmp, stem, trees, data, T, nent, extra)
    sel = range(idl['start'], idl['stop'], idl['step']) if isinstance(idl, dict) else idl
    try:
        try:
            if api == 'read_meson_hd5':
                kw = dict(meson='meson_%d' % entry) if how == 'index' else dict(gammas=GAMMAS[entry])
                res = H.read_meson_hd5(base, stem, 'ens', idl=sel, **kw)
            else:
                attrs = entry if how == 'index' else dict(gamma_snk=GAMMAS[entry][0], gamma_src=GAMMAS[entry][1])
                if how == 'ambiguous':
                    attrs = {}
                res = H.read_hd5(base + '/' + stem, 'ens', 'meson', attrs=attrs, idl=sel, part=part)
        except core.Realize:
            raise
        except Exception as e:
            cx.expect(bool(expect_error), 'reader raised only on a request that cannot be served', '%s: %s' % (type(e).__name__, e))
            return
        if not cx.expect(not expect_error, 'request that cannot be served is rejected (%s)' % expect_error):
            return
        want = sorted(c for c in cfgs if sel is None or c in list(sel))
        if not cx.expect(isinstance(res, pe.Corr) and res.T == T, 'a correlator with T timeslices'):
            return
        for t in range(T):
            o = res.content[t][0]
            parts = []
            if part == 'complex' and api == 'read_hd5':
                if not cx.expect(isinstance(o, pe.CObs), 'complex part gives CObs[%d]' % t):
                    continue
                parts = [(o.real, 0, 're'), (o.imag, 1, 'im')]
            else:
                parts = [(o, 1 if part == 'imag' else 0, part)]
            for ob, which, tag in parts:
                smp = {'ens': {c: data[(c, entry)][which][t] for c in want}}
                lib.compare(cx, ob, lib.primary_spec(smp), 'hd5[t=%d]%s' % (t, tag))
                eq = len(want) > 1 and len(set(np.diff(want))) == 1
                cx.expect(isinstance(ob.idl['ens'], range) == eq, 'range iff evenly spaced[t=%d]' % t)
        cx.expect(res.tag == 'gamma_snk: %s, gamma_src: %s' % GAMMAS[entry], 'tag lists the attributes of the entry', str(res.tag))
    finally:
        if tmp:
            shutil.rmtree(tmp, ignore_errors=True)


def jobs(tier):
    J = []

    def add(**p):
        J.append(dict(harness='hd5', params=p))
    add(cfgs=[1, 2, 3, 4, 5])
    add(cfgs=[1, 2, 3, 4, 5], entry=1, part='imag')
    add(cfgs=[1, 2, 3, 4, 5], entry=1, part='complex', T=3)
    add(cfgs=[1, 2, 3, 4, 5], entry=1, how='index')
    # configuration numbers with different digit counts: lexicographic and numeric order differ; shuffled listings
    for perm in (0, 7, 50, 101):
        add(cfgs=[8, 9, 10, 11, 12], perm=perm, entry=1)
    add(cfgs=[4, 8, 12, 16, 20, 24], perm=33, extra=['database.1.h5', 'data2.3.h5'])
    add(cfgs=[98, 99, 100, 101, 102], perm=3, nent=3, entry=2, api='read_meson_hd5')
    add(cfgs=[98, 99, 100, 101, 102], perm=17, nent=3, entry=1, how='index', api='read_meson_hd5')
    # selections
    add(cfgs=[1, 2, 3, 4, 5, 6, 7, 8], idl=dict(start=2, stop=8, step=1), perm=5)
    add(cfgs=[1, 2, 3, 4, 5, 6, 7, 8, 9, 10, 11], idl=dict(start=1, stop=12, step=2), perm=2, part='imag')
    add(cfgs=[1, 2, 3, 5, 6, 7], idl=[1, 2, 3, 5, 6, 7], perm=4)                     # irregular set needs the idl
    add(cfgs=[1, 2, 3, 5, 6, 7], expect_error='configurations not evenly spaced and no idl')
    # uneven sets that look like a range from their end points and first spacing (last = first + (n-1) * first spacing)
    add(cfgs=[1, 3, 4, 6, 9], expect_error='configurations not evenly spaced and no idl')
    add(cfgs=[2, 4, 5, 8, 9, 10, 13, 17], idl=[2, 4, 5, 9, 10], perm=6)
    add(cfgs=[1, 3, 4, 6, 9], idl=[1, 3, 4, 6, 9], perm=9, part='imag')
    add(cfgs=[1, 2, 3, 4, 5], idl=dict(start=1, stop=8, step=1), expect_error='idl asks for configurations that are not there')
    add(cfgs=[1, 2, 3, 4, 5], how='ambiguous', expect_error='more than one entry fits')
    add(cfgs=[1, 2, 3, 4, 5], nent=1, entry=1, expect_error='entry not in the files')
    return J
