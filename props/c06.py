"""C06 Covariance and correlation matrices are consistent with the individual errors."""
import itertools

import numpy as np
import z3

from symx import core, lib, contracts
from symx.core import SV, sqrt
from props import c02

PROPERTY = 'C06'
OPTS = dict(timeout=120000, maxpaths=300, abstract_k=14, replay_retries=3)
MODS = ('pyerrors.obs', 'pyerrors.covobs', 'pyerrors.fits')


def _analysed(cx, o, tag):
    """Analysed state constructed directly: dvalue a positive symbol (the covariance code reads only `dvalue`,
    `e_dvalue` presence, names, deltas, idl and covobs).  In concrete replay the real gamma_method runs."""
    if cx.mode == 'sym':
        d = cx.real('err_' + tag)
        cx.assume(d > 0)
        o._dvalue = d
        o.e_dvalue = {e: None for e in o.e_names}
    else:
        o.gamma_method()
    return o


def _mkobs(cx, descs, via_gamma=False):
    obs, specs = [], []
    for i, d in enumerate(descs):
        tag = 'o%d' % i
        if isinstance(d, dict):
            o, s = lib.mk_obs(cx, tag, d)
        elif d[0] == 'cov':
            o, s = lib.mk_covobs(cx, tag, d[1], d[2])
        elif d[0] == 'zeroens':
            # ('zeroens', layout): the observable times a constant that lives on its own ensemble with identically vanishing fluctuations
            # (pe.pseudo_Obs(2.0, 0.0, 'const')): that ensemble is listed in names / e_content but carries no information
            import pyerrors as pe
            o1, s1 = lib.mk_obs(cx, tag, d[1])
            cst = pe.Obs([np.zeros(5) + 2.0], ['const'])
            s2 = lib.primary_spec({'const': {c: 2.0 for c in range(1, 6)}})
            o = o1 * cst
            s = lib.derived_spec(lambda x: x[0] * x[1], [s1, s2])
        else:   # ('mix', layout, covname, dim): Monte Carlo part + covariance input
            o1, s1 = lib.mk_obs(cx, tag, d[1])
            o2, s2 = lib.mk_covobs(cx, tag + 'c', d[2], d[3])
            o = o1 + o2
            s = lib.derived_spec(lambda x: x[0] + x[1], [s1, s2])
        if via_gamma:
            o.gamma_method(S=0, fft=False)
        else:
            _analysed(cx, o, tag)
        obs.append(o)
        specs.append(s)
    return obs, specs


def _inter(sa, sb, name):
    return [c for c in sa.idl[name] if c in set(sb.idl[name])]


def cov0_spec(sa, sb):
    """the library's un-normalised correlation estimate: per common ensemble the sum over common replicas of
    sum_c da db over the common configurations / sum over replicas of sqrt(sum da^2 sum db^2), plus J1 Sigma J2^T"""
    tot = 0
    ens = sorted(set(lib.ens_of(n) for n in sa.idl) & set(lib.ens_of(n) for n in sb.idl))
    for e in ens:
        reps = [n for n in sa.idl if lib.ens_of(n) == e and n in sb.idl]
        num = 0
        den = 0
        for n in reps:
            cf = _inter(sa, sb, n)
            if not cf:
                continue
            num = num + sum(sa.deltas[n][c] * sb.deltas[n][c] for c in cf)
            den = den + sqrt(sum(sa.deltas[n][c] * sa.deltas[n][c] for c in cf) * sum(sb.deltas[n][c] * sb.deltas[n][c] for c in cf))
        if isinstance(den, int) or _is_zero(num) and _is_zero(den):
            continue                 # no common configurations, or an ensemble without fluctuations: contributes nothing (the library skips it as well)
        tot = tot + core.If(num == 0, 0, num / den)
    for cn in set(sa.grads) & set(sb.grads):
        C = sa.covs[cn]
        ga, gb = sa.grads[cn], sb.grads[cn]
        tot = tot + sum(ga[i] * float(C[i, j]) * gb[j] for i in range(len(ga)) for j in range(len(gb)))
    return tot


def _is_zero(v):
    if not core.is_sym(v):
        return float(v) == 0.0
    return core.const_of(z3.simplify(core.tz(v), som=True)) == 0


def _nondegenerate(cx, specs):
    """precondition: every observable fluctuates on the configurations it shares with each other one
    (otherwise the library divides by a zero variance and returns NaN)"""
    n = len(specs)
    for i in range(n):
        for j in range(n):
            for name in specs[i].idl:
                if name in specs[j].idl:
                    cf = _inter(specs[i], specs[j], name)
                    if cf and not all(_is_zero(specs[i].deltas[name][c]) for c in cf):       # an ensemble without fluctuations carries no information and is skipped by the library
                        cx.assume(sum(specs[i].deltas[name][c] * specs[i].deltas[name][c] for c in cf) > 0, 'non-degenerate data')


def h_cov(cx, descs, checks, via_gamma=False):
    import pyerrors as pe
    lib.sym_env(cx, *MODS)
    c02._clear_dicts(cx)
    obs, specs = _mkobs(cx, descs, via_gamma)
    n = len(obs)
    _nondegenerate(cx, specs)
    if via_gamma and cx.mode == 'sym' and any(not core.is_sym(o.dvalue) for o in obs):
        cx.ok('early-exit-path')
        return
    cov = pe.covariance(obs)
    corr = pe.covariance(obs, correlation=True)
    cx.expect(cov.shape == (n, n) and corr.shape == (n, n), 'shape')
    if 'sym' in checks:
        for i in range(n):
            for j in range(i):
                cx.prove_eq(cov[i, j], cov[j, i], 'symmetric[%d,%d]' % (i, j))
                cx.prove_eq(corr[i, j], corr[j, i], 'corr-symmetric[%d,%d]' % (i, j))
    if 'diag' in checks:
        for i in range(n):
            cx.prove_eq(cov[i, i], obs[i].dvalue * obs[i].dvalue, 'diagonal=dvalue^2[%d]' % i)
            cx.prove_eq(corr[i, i], 1, 'corr-unit-diagonal[%d]' % i)
    if 'zero' in checks:
        for i in range(n):
            for j in range(n):
                if i != j and set(specs[i].names).isdisjoint(specs[j].names):
                    cx.prove_eq(cov[i, j], 0, 'no-common-ensemble=>0[%d,%d]' % (i, j))
                    cx.prove_eq(corr[i, j], 0, 'corr:no-common-ensemble=>0[%d,%d]' % (i, j))
    if 'pearson' in checks:
        # single chain: correlation = Pearson correlation of the fluctuations on the common configurations
        for i in range(n):
            for j in range(i):
                (name,) = list(specs[i].idl)
                cf = _inter(specs[i], specs[j], name)
                sxy = sum(specs[i].deltas[name][c] * specs[j].deltas[name][c] for c in cf)
                sxx = sum(specs[i].deltas[name][c] * specs[i].deltas[name][c] for c in cf)
                syy = sum(specs[j].deltas[name][c] * specs[j].deltas[name][c] for c in cf)
                cx.prove_eq(corr[i, j] * sqrt(sxx * syy), sxy, 'pearson[%d,%d]' % (i, j))
                cx.prove_eq(cov[i, j], corr[i, j] * obs[i].dvalue * obs[j].dvalue, 'cov=corr*errors[%d,%d]' % (i, j))
    if 'general' in checks:
        # the general formula: corr_ij = c0_ij / sqrt(c0_ii c0_jj), cov_ij = err_i corr_ij err_j
        c0 = [[cov0_spec(specs[i], specs[j]) for j in range(n)] for i in range(n)]
        for i in range(n):
            for j in range(n):
                if i == j:
                    continue
                cx.prove_eq(corr[i, j] * sqrt(c0[i][i]) * sqrt(c0[j][j]), c0[min(i, j)][max(i, j)], 'corr-formula[%d,%d]' % (i, j))
                cx.prove_eq(cov[i, j], corr[i, j] * obs[i].dvalue * obs[j].dvalue, 'cov=err*corr*err[%d,%d]' % (i, j))
    if 'jsj' in checks:
        # purely external inputs: J1 Sigma J2^T (errors are then sqrt(J Sigma J^T): use the real errsq)
        for i in range(n):
            for j in range(n):
                if i < j and not specs[i].idl and not specs[j].idl:
                    cn = list(set(specs[i].grads) & set(specs[j].grads))
                    if not cn:
                        continue
                    C = specs[i].covs[cn[0]]
                    ga, gb = specs[i].grads[cn[0]], specs[j].grads[cn[0]]
                    jsj = sum(ga[a] * float(C[a, b]) * gb[b] for a in range(len(ga)) for b in range(len(gb)))
                    saa = sum(ga[a] * float(C[a, b]) * ga[b] for a in range(len(ga)) for b in range(len(ga)))
                    sbb = sum(gb[a] * float(C[a, b]) * gb[b] for a in range(len(gb)) for b in range(len(gb)))
                    cx.prove_eq(corr[i, j] * sqrt(saa) * sqrt(sbb), jsj, 'corr=J1SigmaJ2^T/norm[%d,%d]' % (i, j))
    if 'bound' in checks:
        # |corr| <= 1, compositionally: (a) corr * sqrt(sxx syy) = sxy is the Pearson obligation above (on the real code);
        # (b) Cauchy-Schwarz sxy^2 <= sxx syy for arbitrary reals (nlsat); (c) (a) and (b) imply corr^2 <= 1.
        for i in range(n):
            for j in range(i):
                (name,) = list(specs[i].idl)
                cf = _inter(specs[i], specs[j], name)
                if cx.mode == 'sym':
                    u = [z3.Real('cs_u%d' % k) for k in range(len(cf))]
                    v = [z3.Real('cs_v%d' % k) for k in range(len(cf))]
                    sxy = sum(a * b for a, b in zip(u, v))
                    sxx = sum(a * a for a in u)
                    syy = sum(b * b for b in v)
                    sv = z3.Solver()
                    sv.set('timeout', int(cx.o['timeout']))
                    sv.add(sxy * sxy > sxx * syy)
                    r = str(sv.check())
                    cx._record('(b) Cauchy-Schwarz n=%d [%d,%d]' % (len(cf), i, j), r, tier=1)
                    c_, s_, xy, P = z3.Reals('bc bs bxy bP')
                    cx.prove(z3.Implies(z3.And(s_ * s_ == P, s_ > 0, c_ * s_ == xy, xy * xy <= P), z3.And(c_ >= -1, c_ <= 1)),
                             '(c) pearson + Cauchy-Schwarz => corr in [-1,1] [%d,%d]' % (i, j))
                sxy = sum(specs[i].deltas[name][c] * specs[j].deltas[name][c] for c in cf)
                sxx = sum(specs[i].deltas[name][c] * specs[i].deltas[name][c] for c in cf)
                syy = sum(specs[j].deltas[name][c] * specs[j].deltas[name][c] for c in cf)
                cx.prove_eq(corr[i, j] * sqrt(sxx * syy), sxy, '(a) pearson[%d,%d]' % (i, j))
                if cx.mode == 'conc':
                    cx.prove(-1 - 1e-9 <= corr[i, j] <= 1 + 1e-9, 'corr-in-[-1,1][%d,%d]' % (i, j))
    if 'perm' in checks:
        for perm in itertools.permutations(range(n)):
            if list(perm) == list(range(n)):
                continue
            covp = pe.covariance([obs[k] for k in perm])
            for i in range(n):
                for j in range(n):
                    cx.prove_eq(covp[i, j], cov[perm[i], perm[j]], 'perm%s[%d,%d]' % (''.join(map(str, perm)), i, j))
            if n > 3:
                break


def h_jsj_errors(cx, dim):
    """covariance of purely external inputs with their true errors (gamma_method): cov_ij = J_i Sigma J_j^T"""
    import pyerrors as pe
    lib.sym_env(cx, *MODS)
    a, sa = lib.mk_covobs(cx, 'a', 'cv', dim)
    b, sb = lib.mk_covobs(cx, 'b', 'cv', dim)
    a.gamma_method()
    b.gamma_method()
    C = sa.covs['cv']
    q = lambda u, v: sum(u[i] * float(C[i, j]) * v[j] for i in range(dim) for j in range(dim))
    cx.prove_eq(a.dvalue * a.dvalue, q(sa.grads['cv'], sa.grads['cv']), 'dvalue^2=JSigmaJ^T')
    if cx.mode == 'sym':
        cx.assume(q(sa.grads['cv'], sa.grads['cv']) > 0)
        cx.assume(q(sb.grads['cv'], sb.grads['cv']) > 0)
    cov = pe.covariance([a, b])
    cx.prove_eq(cov[0, 1], q(sa.grads['cv'], sb.grads['cv']), 'cov=J1SigmaJ2^T')
    cx.prove_eq(cov[0, 0], q(sa.grads['cv'], sa.grads['cv']), 'cov00=J1SigmaJ1^T')


def h_not_analysed(cx):
    import pyerrors as pe
    lib.sym_env(cx, *MODS)
    a, _ = lib.mk_obs(cx, 'a', {'e|r1': [1, 2, 3, 4, 5]})
    b, _ = lib.mk_obs(cx, 'b', {'e|r1': [1, 2, 3, 4, 5]})
    try:
        pe.covariance([a, b])
    except Exception as e:
        if isinstance(e, core.Realize):
            raise
        cx.ok('raises[not analysed]')
    else:
        cx.fail('no-exception[not analysed]')


def h_sort_corr(cx, kl, sizes):
    """re-sorting a correlation matrix by keys = the corresponding permutation (matrix entries symbolic)"""
    import pyerrors as pe
    lib.sym_env(cx, *MODS)
    n = sum(sizes[k] for k in kl)
    M = np.empty((n, n), dtype=object if cx.mode == 'sym' else float)
    for i in range(n):
        for j in range(n):
            M[i, j] = cx.real('m_%d_%d' % (i, j))
    yd = {k: list(range(sizes[k])) for k in kl}
    R = pe.obs.sort_corr(M, list(kl), yd)
    # position of (key, index) in the input order and in the sorted order
    pos_in, ofs = {}, 0
    for k in kl:
        for i in range(sizes[k]):
            pos_in[(k, i)] = ofs + i
        ofs += sizes[k]
    order = [(k, i) for k in sorted(kl) for i in range(sizes[k])]
    cx.expect(R.shape == (n, n), 'shape')
    for a, ka in enumerate(order):
        for b, kb in enumerate(order):
            cx.prove_eq(R[a][b], M[pos_in[ka]][pos_in[kb]], 'sorted[%d,%d]' % (a, b))
    cx.prove_eq(list(M.ravel()), [cx.real('m_%d_%d' % (i, j)) for i in range(n) for j in range(n)], 'input-not-mutated')


def h_error_band(cx, descs, model):
    """error band = sqrt(g^T C g) with g the gradient of the fit function w.r.t. the parameters"""
    import pyerrors as pe
    import pyerrors.fits as F
    import autograd.numpy as anp
    lib.sym_env(cx, *MODS)
    obs, specs = _mkobs(cx, descs)
    _nondegenerate(cx, specs)
    xs = [0.5, 2.0]
    if model == 'lin':
        f = lambda a, x: a[0] + a[1] * x
        grad = lambda a, x: [1, x]
    else:
        f = lambda a, x: a[0] * (anp.exp if cx.mode == 'conc' else (lambda v: core.fn('exp', v)))(-a[1] * x)
        grad = lambda a, x: [core.fn('exp', -a[1] * x), -x * a[0] * core.fn('exp', -a[1] * x)]
    if cx.mode == 'sym':
        # an eigen-decomposition inside error_band (none on the current tree) meets its LAPACK contract instead of the covariance helper's placeholder
        from symx.npshim import NPShim
        sh = NPShim()
        sh.__dict__['_linalg_over'] = dict(eigh=contracts.eigh)
        cx.patch(F, 'np', sh)
    band = F.error_band(xs, f, obs)
    cov = pe.covariance(obs)
    for k, x in enumerate(xs):
        g = grad([o.value for o in obs], x)
        q = sum(g[i] * cov[i, j] * g[j] for i in range(len(g)) for j in range(len(g)))
        cx.prove_eq(band[k] * band[k], q, 'band^2=g^T C g[%d]' % k)


def _sym_matrix(cx, n, stem='c', unit_diag=True, zeros=()):
    M = np.empty((n, n), dtype=object if cx.mode == 'sym' else float)
    for i in range(n):
        for j in range(i + 1):
            if i == j and unit_diag:
                M[i, j] = 1.0
            elif [i, j] in [list(z) for z in zeros]:
                M[i, j] = M[j, i] = 0.0          # observables without a common ensemble
            else:
                v = cx.real('%s%d%d' % (stem, i, j))
                if cx.mode == 'conc':
                    v = 0.25 * (v - 1.0)              # generic replay data in [0.5, 1.5] -> correlations in [-0.125, 0.125]: positive definite
                M[i, j] = M[j, i] = v
    return M


def h_smooth(cx, n, E):
    """_smooth_eigenvalues under the LAPACK contract of eigh (A V = V diag(w), V^T V = 1, w ascending): the result is V diag(w') V^T with
    w'_k = max(w_k, mean of the n-E smallest) / mean, it is symmetric, has the trace of the input (= n for a correlation matrix) and leaves the
    ratios of the E largest eigenvalues unchanged; inadmissible E are rejected."""
    import pyerrors.obs as O
    lib.sym_env(cx, *MODS)
    corr = _sym_matrix(cx, n)
    rec = []
    if cx.mode == 'sym':
        def eigh(A, *a, **k):
            w, V = contracts.eigh(A, *a, **k)
            rec.append((np.array(w, dtype=object), np.array(V, dtype=object)))
            return w, V
        vars(O)['np'].__dict__['_linalg_over'] = dict(eigh=eigh)
    for bad in (2, n - 1, 0, n + 1):
        try:
            O._smooth_eigenvalues(corr.copy(), bad)
        except ValueError:
            cx.ok('inadmissible E=%d rejected' % bad)
        else:
            cx.fail('inadmissible E=%d accepted' % bad)
    del rec[:]
    res = np.asarray(O._smooth_eigenvalues(corr.copy(), E))
    if not cx.expect(res.shape == (n, n), 'shape'):
        return
    tr = sum(res[i, i] for i in range(n))
    for i in range(n):
        for j in range(i):
            cx.prove_eq(res[i, j], res[j, i], 'smoothed matrix symmetric[%d,%d]' % (i, j), use_facts=False)
    if cx.mode == 'conc':
        cx.prove_eq(tr, float(n), 'trace preserved')
        w0 = np.linalg.eigvalsh(np.asarray(corr, dtype=float))
        w1 = np.linalg.eigvalsh(np.asarray(res, dtype=float))
        for k in range(n - E, n - 1):
            cx.prove_eq(w1[k] * w0[n - 1], w1[n - 1] * w0[k], 'ratios of the E largest eigenvalues unchanged[%d]' % k)
        lmin = np.mean(w0[:n - E])
        cx.prove_eq(list(w1), list(np.sort(np.maximum(w0, lmin) / np.mean(np.maximum(w0, lmin)))), 'spectrum of the smoothed matrix')
        return
    if not cx.expect(len(rec) == 1, 'one eigen-decomposition', str(len(rec))):
        return
    w, V = rec[0]
    lmin = sum(w[:n - E]) / (n - E)
    wc = [core.If(w[k] < lmin, lmin, w[k]) for k in range(n)]
    mean = sum(wc) / n
    wp = [wc[k] / mean for k in range(n)]
    for i in range(n):
        for j in range(i + 1):
            cx.prove_eq(res[i, j], sum(V[i, k] * wp[k] * V[j, k] for k in range(n)), 'result = V diag(w_smoothed) V^T [%d,%d]' % (i, j), use_facts=False)
    cx.prove_eq(sum(wp), n, 'smoothed eigenvalues sum to n', use_facts=False)
    # trace(V D V^T) = sum_k d_k |v_k|^2 and the contract normalises the columns
    cx.prove_eq(tr, sum(wp[k] * sum(V[i, k] * V[i, k] for i in range(n)) for k in range(n)), 'trace = sum_k w_k |v_k|^2', use_facts=False)
    for k in range(n):
        cx.prove_eq(sum(V[i, k] * V[i, k] for i in range(n)), 1, 'eigenvectors normalised (contract)[%d]' % k)
    for k in range(n - E, n):
        cx.prove(w[k] >= lmin, 'the E largest eigenvalues are not clipped[%d]' % k)
    for k in range(n - E, n - 1):
        cx.prove_eq(wp[k] * w[n - 1], wp[n - 1] * w[k], 'ratios of the E largest eigenvalues unchanged[%d]' % k)


def h_cholinv(cx, n, zeros=()):
    """invert_corr_cov_cholesky under the LAPACK contracts (cholesky: L lower, L L^T = corr; solve_triangular: L X = B; cond: well-conditioned input assumed):
    the returned X is lower triangular and X^T X is the inverse of the covariance D corr D (D = diag of the errors, B = D^-1):
    (X^T X)(D corr D) = 1.  Ill-conditioned input may be rejected with ValueError (documented)."""
    import pyerrors.obs as O
    lib.sym_env(cx, *MODS)
    corr = _sym_matrix(cx, n, zeros=zeros)
    errs = [cx.real('d%d' % i) for i in range(n)]
    for d in errs:
        cx.assume(d > 0, 'errors positive')
    B = np.zeros((n, n), dtype=object if cx.mode == 'sym' else float)
    for i in range(n):
        B[i, i] = 1 / errs[i]
    rec = {}
    if cx.mode == 'sym':
        def cholesky(A):
            A = np.asarray(A, dtype=object)
            Lm = np.zeros((n, n), dtype=object)
            for i in range(n):
                for j in range(i + 1):
                    Lm[i, j] = core.SV(cx.newvar('chol'))
                cx.fact(core.tz(Lm[i, i]) > 0)
            P = Lm.dot(Lm.T)
            for i in range(n):
                for j in range(i + 1):
                    cx.fact(core.tz(P[i, j]) == core.tz(A[i, j]))
            rec['chol'] = (A, Lm)
            return Lm

        def cond(A, *a, **k):
            return 10.0          # well-conditioned input assumed (the rejection / warning of ill-conditioned matrices only formats the number)

        def solve_triangular(Lm, Bm, lower=False, **k):
            Lm = np.asarray(Lm, dtype=object)
            Bm = np.asarray(Bm, dtype=object)
            X = contracts.fresh_array('trsolve', Bm.shape)
            R = Lm.dot(X) - Bm
            for v in R.ravel():
                cx.fact(core.tz(v) == 0)
            rec['solve'] = (Lm, Bm, X, lower)
            return X
        vars(O)['np'].__dict__['_linalg_over'] = dict(cholesky=cholesky, cond=cond)
        contracts.install_scipy(cx, 'pyerrors.obs', **{'linalg.solve_triangular': solve_triangular})
    try:
        X = np.asarray(O.invert_corr_cov_cholesky(corr, B))
    except ValueError:
        cx.ok('rejected as ill-conditioned (documented)')
        return
    if not cx.expect(X.shape == (n, n), 'shape'):
        return
    if cx.mode == 'conc':
        D = np.diag(np.asarray(errs, dtype=float))
        cov = D @ np.asarray(corr, dtype=float) @ D
        P = X.T @ X @ cov
        for i in range(n):
            for j in range(n):
                cx.prove_eq(P[i, j] + 1.0, (1.0 if i == j else 0.0) + 1.0, '(X^T X) cov = 1 [%d,%d]' % (i, j))
                if j > i:
                    cx.prove_eq(X[i, j] + 1.0, 1.0, 'lower triangular[%d,%d]' % (i, j))
        return
    if not cx.expect('chol' in rec and 'solve' in rec, 'cholesky factor and triangular solve used'):
        return
    A, Lm = rec['chol']
    Ls, Bs, Xs, lower = rec['solve']
    cx.expect(lower is True, 'solve_triangular called with lower=True')
    for i in range(n):
        for j in range(n):
            cx.prove_eq(A[i, j], corr[i, j], 'matrix handed to cholesky = corr[%d,%d]' % (i, j), use_facts=False)
            cx.prove_eq(Ls[i, j], Lm[i, j], 'triangular system uses the Cholesky factor[%d,%d]' % (i, j), use_facts=False)
            cx.prove_eq(Bs[i, j], B[i, j], 'right-hand side = inverse errors[%d,%d]' % (i, j), use_facts=False)
    # the contract L X = B pins X down: replace it by forward substitution (proven), then the claim is a rational identity in L and the errors
    Xe = np.zeros((n, n), dtype=object)
    for j in range(n):
        for i in range(n):
            acc = B[i, j] - sum(Lm[i, k] * Xe[k, j] for k in range(i))
            Xe[i, j] = acc / Lm[i, i]
    for i in range(n):
        for j in range(n):
            cx.eliminate(Xs[i, j], Xe[i, j], 'solution of the triangular system is the forward substitution [%d,%d]' % (i, j))
    for i in range(n):
        for j in range(i + 1, n):
            cx.prove_eq(X[i, j], 0, 'lower triangular[%d,%d]' % (i, j))
    LLt = Lm.dot(Lm.T)
    for i in range(n):
        for j in range(i + 1):
            cx.prove_eq(corr[i, j], LLt[i, j], 'corr = L L^T (contract)[%d,%d]' % (i, j))
    cov = np.array([[errs[i] * LLt[i, j] * errs[j] for j in range(n)] for i in range(n)], dtype=object)
    M = X.T.dot(X)
    P = M.dot(cov)
    for i in range(n):
        for j in range(n):
            cx.prove_eq(P[i, j], 1 if i == j else 0, '(X^T X)(D L L^T D) = 1 [%d,%d]' % (i, j))


HARNESSES = dict(cov=h_cov, jsj_errors=h_jsj_errors, not_analysed=h_not_analysed, sort_corr=h_sort_corr, error_band=h_error_band, smooth=h_smooth, cholinv=h_cholinv)


def jobs(tier, seed):
    J = []

    def add(h, **p):
        J.append(dict(harness=h, params=p))
    S5 = {'e|r1': [1, 2, 3, 4, 5]}
    S6 = {'e|r1': [1, 2, 3, 4, 5, 6]}
    S5b = {'e|r1': [2, 3, 4, 5, 6]}
    S5i = {'e|r1': [1, 2, 4, 5, 6]}
    F5 = {'f|r1': [1, 2, 3, 4, 5]}
    M2 = {'e|r1': [1, 2, 3, 4, 5], 'e|r2': [1, 2, 3, 4, 5]}
    add('cov', descs=[S5, S5], checks=['sym', 'diag', 'pearson', 'perm'])
    add('cov', descs=[S5, S5, S5], checks=['sym', 'diag', 'pearson'])
    add('cov', descs=[S5, S5, S5], checks=['perm'])
    add('cov', descs=[S6, S5b], checks=['sym', 'diag', 'pearson', 'perm'])          # partly overlapping lists
    add('cov', descs=[S6, S5i, S5], checks=['sym', 'diag', 'pearson'])              # nested + irregular
    # strided ranges: nested with a later start, different strides, overlapping
    R7 = {'e|r1': [2, 4, 6, 8, 10, 12, 14]}
    R5l = {'e|r1': [6, 8, 10, 12, 14]}
    R5s = {'e|r1': [4, 8, 12, 16, 20]}
    R6o = {'e|r1': [8, 10, 12, 14, 16, 18]}
    add('cov', descs=[R7, R5l], checks=['sym', 'diag', 'pearson', 'perm'])
    add('cov', descs=[R7, R5s], checks=['sym', 'diag', 'pearson'])
    add('cov', descs=[R6o, R5l], checks=['sym', 'diag', 'pearson'])
    add('cov', descs=[S5, F5, S5], checks=['sym', 'diag', 'zero', 'perm'])          # disjoint ensembles
    add('cov', descs=[S5, F5], checks=['zero', 'general'])
    add('cov', descs=[M2, S5], checks=['sym', 'diag', 'general'])                   # replica subsets
    add('cov', descs=[M2, M2], checks=['sym', 'diag', 'general', 'perm'])
    add('cov', descs=[('cov', 'cv', 2), ('cov', 'cv', 2)], checks=['sym', 'diag', 'jsj', 'perm'])
    add('cov', descs=[('cov', 'cv', 2), ('cov', 'cw', 1), S5], checks=['sym', 'diag', 'zero'])
    add('cov', descs=[('mix', S5, 'cv', 2), ('mix', S5, 'cv', 2)], checks=['sym', 'diag', 'general'])
    add('cov', descs=[('mix', S5, 'cv', 1), S5, ('cov', 'cv', 1)], checks=['sym', 'diag', 'general'])
    add('cov', descs=[('zeroens', S5), S5], checks=['sym', 'diag', 'general'])      # an ensemble with identically zero fluctuations in one operand
    add('cov', descs=[('zeroens', S5), ('zeroens', S5b)], checks=['sym', 'diag', 'general'])
    add('cov', descs=[S5, S5], checks=['diag', 'sym'], via_gamma=True)              # ties dvalue to sqrt(Gamma0/(N-1))
    add('jsj_errors', dim=1)
    add('jsj_errors', dim=2)
    add('not_analysed')
    for kl, sizes in ((['b', 'a'], {'a': 2, 'b': 1}), (['c', 'a', 'b'], {'a': 1, 'b': 2, 'c': 1}), (['x', 'y'], {'x': 2, 'y': 2}),
                      (['b', 'c', 'a'], {'a': 2, 'b': 1, 'c': 2})):
        add('sort_corr', kl=kl, sizes=sizes)
    add('error_band', descs=[S5, S5], model='lin')
    J.append(dict(harness='smooth', params=dict(n=5, E=3), opts=dict(staged_facts=True)))
    J.append(dict(harness='cholinv', params=dict(n=2), opts=dict(staged_facts=True, abstract_k=10 ** 9)))
    # three observables, the middle one on another ensemble (zero correlation with its neighbours, the outer two correlated)
    J.append(dict(harness='cholinv', params=dict(n=3, zeros=[[1, 0], [2, 1]]), opts=dict(staged_facts=True, abstract_k=10 ** 9, job_timeout=240)))     # no size-triggered abstraction: eliminated contract symbols must stay visible
    add('error_band', descs=[S5, F5], model='exp')
    if tier == 'thorough':
        add('cov', descs=[S5, S5], checks=['bound'])
        add('cov', descs=[S6, S6], checks=['bound'])
        add('cov', descs=[S5, S5, S5, S5], checks=['sym', 'diag', 'perm'])
        add('cov', descs=[S6, S5b, F5, M2], checks=['sym', 'diag', 'zero'])
        add('cov', descs=[('cov', 'cv', 3), ('cov', 'cv', 3), ('cov', 'cv', 3)], checks=['sym', 'diag', 'jsj'])
        add('sort_corr', kl=['d', 'b', 'a', 'c'], sizes={'a': 1, 'b': 2, 'c': 1, 'd': 1})
    return J


def apply_canary(name):
    from symx.mutate import mutate
    if name == 'cov-transpose':
        return mutate('pyerrors.obs', 'covariance', 'cov = cov + cov.T - np.diag(np.diag(cov))', 'cov = cov + cov.T')
    if name == 'union-not-intersection':
        return mutate('pyerrors.obs', '_covariance_element', 'idl_d[r_name] = _intersection_idx([obs1.idl[r_name], obs2.idl[r_name]])', 'idl_d[r_name] = _intersection_idx([obs1.idl[r_name], obs1.idl[r_name]])')
    if name == 'sort-mapping':
        return mutate('pyerrors.obs', 'sort_corr', 'for ki, k in enumerate(kl):', 'for ki, k in enumerate(kl_sorted):')
    if name == 'smooth-norm':
        return mutate('pyerrors.obs', '_smooth_eigenvalues', 'vals /= np.mean(vals)', 'vals /= np.mean(vals[-E:])')
    if name == 'smooth-clip':
        return mutate('pyerrors.obs', '_smooth_eigenvalues', 'lambda_min = np.mean(vals[:-E])', 'lambda_min = np.mean(vals[:E])')
    if name == 'cholinv-transposed':
        return mutate('pyerrors.obs', 'invert_corr_cov_cholesky', 'chol_inv = scipy.linalg.solve_triangular(chol, inverrdiag, lower=True)', 'chol_inv = scipy.linalg.solve_triangular(chol, inverrdiag, lower=True).T')
    raise KeyError(name)


def _cj(h, **p):
    return lambda tier, seed: [dict(harness=h, params=p, opts=dict(staged_facts=True, abstract_k=10 ** 9))]


CANARIES = [
    dict(name='cov-transpose', what='diagonal counted twice when symmetrising', quick=True,
         jobs=_cj('cov', descs=[{'e|r1': [1, 2, 3, 4, 5]}, {'e|r1': [1, 2, 3, 4, 5]}], checks=['pearson'])),
    dict(name='union-not-intersection', what='intersection of configuration lists replaced',
         jobs=_cj('cov', descs=[{'e|r1': [1, 2, 3, 4, 5, 6]}, {'e|r1': [2, 3, 4, 5, 6]}], checks=['pearson'])),
    dict(name='sort-mapping', what='sort_corr positions built from the sorted key order', jobs=_cj('sort_corr', kl=['b', 'a'], sizes={'a': 2, 'b': 1})),
    dict(name='smooth-norm', what='smoothed eigenvalues normalised with the mean of the E largest only (trace not preserved)', jobs=_cj('smooth', n=5, E=3)),
    dict(name='smooth-clip', what='clipping threshold taken from the wrong end of the spectrum', jobs=_cj('smooth', n=5, E=3)),
    dict(name='cholinv-transposed', what='upper instead of lower triangular inverse factor', jobs=_cj('cholinv', n=2)),
]

META = dict(
    explanation='C06: covariance(), _covariance_element, _intersection_idx, _reduce_deltas, sort_corr and fits.error_band run on symbolic fluctuations, '
                'covariance gradients and (for sort_corr) symbolic matrix entries; symmetry, diagonal = dvalue^2, unit diagonal of the correlation, zero for '
                'disjoint support, permutation equivariance, Pearson identity on the intersection, the general normalisation formula, J1 Sigma J2^T, '
                '|corr| <= 1 (thorough), sort_corr = key permutation, error_band^2 = g^T C g.',
    bounds='2-4 observables; chains of 5-6 configurations, identical / partly overlapping / nested / irregular lists, replica subsets, disjoint ensembles, shared '
           'covariance inputs of dimension 1-3; all permutations of <= 3 observables; sort_corr for 4 key layouts (5 thorough).',
    outside=['positive semi-definiteness for n > 2 (quantifier alternation)', '_smooth_eigenvalues and invert_corr_cov_cholesky are decided under the LAPACK contracts of eigh / cholesky / solve_triangular (n = 5, E = 3 resp. n = 2; n = 3 of the Cholesky inverse is beyond nlsat: one entry of (X^T X) cov = 1 stays unknown after 180 s); LAPACK numerics themselves outside',
             'the eigh call inside covariance() (only emits a warning; stubbed)', 'floating-point rounding'],
    stubs=['numpy shim', 'np.linalg.eigh inside covariance() -> zeros (warning only)', 'analysed state constructed directly: dvalue a positive symbol '
           '(one family runs the real gamma_method(S=0))', 'autograd.elementwise_grad -> dual numbers'],
    assumptions=['errors of analysed observables are positive', 'sqrt uninterpreted with sqrt^2 = id'],
)
