"""C04 Every observable produced by the library is structurally well-formed."""
import numpy as np
import z3

from symx import core, lib, contracts
from symx.core import SInt, SB

PROPERTY = 'C04'
OPTS = dict(timeout=60000, maxpaths=3000)
MODS = ('pyerrors.obs', 'pyerrors.covobs', 'pyerrors.roots', 'pyerrors.input.json')


def h_ctor_idl(cx, n, lo, hi):
    """Obs.__init__ with symbolic configuration numbers: rejected iff not strictly increasing; stored as given; range iff equally spaced"""
    import pyerrors as pe
    lib.sym_env(cx, *MODS)
    idx = [cx.integer('c%d' % i, lo, hi) for i in range(n)]
    smp = np.array([cx.real('x%d' % i) for i in range(n)], dtype=object if cx.mode == 'sym' else float)
    inc = core.And(*[idx[i] < idx[i + 1] for i in range(n - 1)])
    eq = core.And(*[idx[i + 1] - idx[i] == idx[1] - idx[0] for i in range(1, n - 1)])
    try:
        o = pe.Obs([smp], ['e|r1'], idl=[list(idx)])
    except ValueError:
        cx.prove(core.Not(inc), 'rejected only if not strictly increasing')
        return
    cx.prove(inc, 'accepted only if strictly increasing')
    stored = list(o.idl['e|r1'])
    cx.expect(len(stored) == n and o.shape['e|r1'] == n and o.N == n and len(o.deltas['e|r1']) == n, 'lengths')
    for i in range(n):
        cx.prove_eq(stored[i], idx[i], 'stored configuration number[%d]' % i)
    if isinstance(o.idl['e|r1'], range):
        cx.prove(eq, 'range only if equally spaced')
    else:
        cx.prove(core.Not(eq), 'list only if not equally spaced')


BAD = {
    'duplicate-names': lambda pe, x: pe.Obs([x, x], ['e|r1', 'e|r1']),
    'non-string-name': lambda pe, x: pe.Obs([x], [5]),
    'non-string-names': lambda pe, x: pe.Obs([x, x], ['e|r1', 7]),
    'length-mismatch': lambda pe, x: pe.Obs([x, x], ['e|r1']),
    'idl-length': lambda pe, x: pe.Obs([x], ['e|r1'], idl=[[1, 2, 3, 4, 5], [1, 2, 3, 4, 5]]),
    'idl-samples-mismatch': lambda pe, x: pe.Obs([x], ['e|r1'], idl=[[1, 2, 3, 4, 5, 6]]),
    'four-samples': lambda pe, x: pe.Obs([x[:4]], ['e|r1']),
    'replica-lengths-cancel': lambda pe, x: pe.Obs([np.concatenate([x, x[:1]]), np.concatenate([x, x[:3]])], ['e|r1', 'e|r2'], idl=[range(1, 8), range(1, 8)]),
    'replica-lengths-cancel-lists': lambda pe, x: pe.Obs([x, np.concatenate([x, x[:2]])], ['e|r1', 'e|r2'], idl=[[1, 2, 3, 4, 5, 7], [1, 2, 3, 4, 5, 6]]),
    'several-ensembles': lambda pe, x: pe.Obs([x, x], ['e|r1', 'f|r1']),
    'several-ensembles-prefix': lambda pe, x: pe.Obs([x, x], ['A|r1', 'AB|r1']),
    'several-ensembles-prefix3': lambda pe, x: pe.Obs([x, x, x], ['A|r1', 'A2|r1', 'A|r2']),
    'several-ensembles-no-separator': lambda pe, x: pe.Obs([x, x], ['ens', 'ens2']),
    'unsorted-idl': lambda pe, x: pe.Obs([x], ['e|r1'], idl=[[1, 3, 2, 4, 5]]),
    'duplicate-idl': lambda pe, x: pe.Obs([x], ['e|r1'], idl=[[1, 2, 2, 4, 5]]),
    'idl-type': lambda pe, x: pe.Obs([x], ['e|r1'], idl=['12345']),
    'cov-name-separator': lambda pe, x: pe.cov_Obs(1.0, 0.25, 'a|b'),
    'cov-asymmetric': lambda pe, x: pe.cov_Obs([1.0, 2.0], [[1.0, 0.5], [0.25, 1.0]], 'cv'),
    'cov-indefinite': lambda pe, x: pe.cov_Obs([1.0, 2.0], [[1.0, 2.0], [2.0, 1.0]], 'cv'),
    'cov-negative-variance': lambda pe, x: pe.cov_Obs(1.0, -0.04, 'cv'),
    'cov-asymmetric-with-grad': lambda pe, x: pe.cov_Obs([1.0, 2.0], [[1.0, 0.5], [0.25, 1.0]], 'cv', grad=[1.0, -1.0]),
    'cov-indefinite-with-grad': lambda pe, x: pe.cov_Obs([1.0, 2.0], [[1.0, 2.0], [2.0, 1.0]], 'cv', grad=[1.0, -1.0]),
    'cov-negative-variance-with-grad': lambda pe, x: pe.cov_Obs(1.0, -0.04, 'cv', grad=[2.0]),
    'cov-negative-diagonal-with-grad': lambda pe, x: pe.cov_Obs([1.0, 2.0], [0.25, -0.04], 'cv', grad=[[1.0, 0.0], [0.0, 1.0]]),
    'cov-not-square': lambda pe, x: pe.cov_Obs([1.0, 2.0], [[1.0, 0.0, 0.0], [0.0, 1.0, 0.0]], 'cv'),
    'cov-means-count': lambda pe, x: pe.cov_Obs([1.0, 2.0, 3.0], [[1.0, 0.0], [0.0, 1.0]], 'cv'),
}


def h_bad_ctor(cx):
    import pyerrors as pe
    lib.sym_env(cx, *MODS)
    x = np.array([cx.real('x%d' % i) for i in range(5)], dtype=object if cx.mode == 'sym' else float)
    for name, f in BAD.items():
        try:
            f(pe, x)
        except core.Realize:
            raise
        except Exception:
            cx.ok('rejected[%s]' % name)
        else:
            cx.fail('accepted[%s]' % name, 'malformed construction request was accepted')
    # well-formed ones
    o = pe.Obs([x, x], ['e|r2', 'e|r1'], idl=[[1, 2, 3, 4, 5], range(2, 12, 2)])
    lib.check_wellformed(cx, o, 'two-replica')
    cx.expect(o.names == ['e|r1', 'e|r2'] and isinstance(o.idl['e|r2'], range) and isinstance(o.idl['e|r1'], range), 'sorted names, ranges')
    c = pe.cov_Obs([1.0, 2.0], [[1.0, 0.5], [0.5, 1.0]], 'cv')
    for ci in c:
        lib.check_wellformed(cx, ci, 'cov_Obs')


def h_names(cx, func, timeout=90):
    """which chain / covariance names the real constructors accept, for all short strings (CrossHair, see symx/xhair.py and props/xh_c04.py)"""
    from symx import xhair
    xhair.decide(cx, 'props.xh_c04', func, 'constructor accepts exactly the well-formed names [%s]' % func, timeout=timeout)


def closed(cx, r, label):
    """a real or a complex observable of well-formed parts, never a complex central value or a bare number"""
    import pyerrors as pe
    if isinstance(r, pe.CObs):
        ok = True
        for part, nm in ((r.real, 're'), (r.imag, 'im')):
            if isinstance(part, pe.Obs):
                ok &= lib.check_wellformed(cx, part, '%s:%s' % (label, nm))
            else:
                ok &= cx.expect(isinstance(part, (int, float, np.floating, np.integer, core.SV)) and not isinstance(part, (complex, np.complexfloating)), '%s:%s-number' % (label, nm), type(part).__name__)
        return ok
    if isinstance(r, pe.Obs):
        return lib.check_wellformed(cx, r, label)
    cx.fail(label + ':closure', 'result of type %s' % type(r).__name__)
    return False


def h_closure(cx, layout_a, layout_b):
    import pyerrors as pe
    lib.sym_env(cx, *MODS)
    a, _ = lib.mk_obs(cx, 'a', layout_a)
    b, _ = lib.mk_obs(cx, 'b', layout_b)
    z = pe.CObs(a, b)
    nums = {'int': 3, 'float': 2.5, 'complex': 2 + 3j, 'npfloat': np.float64(0.5), 'complex-real': complex(2.5, 0.0), 'npcomplex-real': np.complex128(0.5 + 0j), 'npcomplex': np.complex128(0.5 - 1.5j)}
    ops = {'add': lambda x, y: x + y, 'sub': lambda x, y: x - y, 'mul': lambda x, y: x * y, 'div': lambda x, y: x / y}
    for on, op in ops.items():
        for nn, num in nums.items():
            for who, obj in (('obs', a), ('cobs', z)):
                for order in ('l', 'r'):
                    label = '%s[%s,%s,%s]' % (on, who, nn, order)
                    try:
                        r = op(obj, num) if order == 'l' else op(num, obj)
                    except core.Realize:
                        raise
                    except Exception as e:
                        cx.fail(label + ':raises', '%s: %s' % (type(e).__name__, e))
                        continue
                    closed(cx, r, label)
        closed(cx, op(a, b), '%s[obs,obs]' % on)
        closed(cx, op(z, a), '%s[cobs,obs]' % on)
        closed(cx, op(a, z), '%s[obs,cobs]' % on)
        closed(cx, op(z, z), '%s[cobs,cobs]' % on)
        zr = pe.CObs(b)                   # complex observable whose imaginary part is the plain default 0.0
        closed(cx, op(z, zr), '%s[cobs,cobs-real]' % on)
        closed(cx, op(zr, z), '%s[cobs-real,cobs]' % on)
        closed(cx, op(a, zr), '%s[obs,cobs-real]' % on)
        closed(cx, op(zr, a), '%s[cobs-real,obs]' % on)
    for nn, num in nums.items():
        if nn.startswith('npcomplex'):
            continue        # powers with complex-typed numbers are the known finding C04-obs-pow-complex: two representatives suffice
        for order in ('l', 'r'):
            label = 'pow[obs,%s,%s]' % (nn, order)
            try:
                r = a ** num if order == 'l' else num ** a
            except core.Realize:
                raise
            except Exception as e:
                cx.fail(label + ':raises', '%s: %s' % (type(e).__name__, e))
                continue
            closed(cx, r, label)
    closed(cx, a ** b, 'pow[obs,obs]')
    for f in ('neg', 'abs', 'sin', 'exp', 'sqrt', 'log', 'arctan'):
        r = {'neg': lambda: -a, 'abs': lambda: abs(a)}.get(f, lambda f=f: getattr(np, f)(a))()
        closed(cx, r, f)
    closed(cx, -z, 'neg[cobs]')
    closed(cx, z.conjugate(), 'conjugate')


def h_producers(cx):
    """one step of the other producers from well-formed operands"""
    import pyerrors as pe
    import pyerrors.input.json as J
    from props import c11
    lib.sym_env(cx, *MODS)
    contracts.install_scipy(cx, 'pyerrors.roots', **{'optimize.fsolve': contracts.fsolve})
    a, _ = lib.mk_obs(cx, 'a', {'e|r1': [1, 2, 3, 4, 5], 'e|r2': [1, 2, 4, 5, 6]})
    b, _ = lib.mk_obs(cx, 'b', {'e|r1': [2, 3, 4, 5, 6]})
    c, _ = lib.mk_covobs(cx, 'c', 'cv', 2)
    w, _ = lib.mk_obs(cx, 'w', {'e|r1': [1, 2, 3, 4, 5, 6]})
    lib.check_wellformed(cx, pe.reweight(w, [b])[0], 'reweight')
    lib.check_wellformed(cx, pe.correlate(b, b), 'correlate')
    lib.check_wellformed(cx, pe.merge_obs([b, lib.mk_obs(cx, 'm', {'e|r7': [1, 2, 3, 4, 5]})[0]]), 'merge_obs')
    lib.check_wellformed(cx, a * b + c, 'mixed')
    lib.check_wellformed(cx, pe.find_root(b, lambda x, d: x * x * x + x - d), 'find_root')
    j = b.export_jackknife()
    lib.check_wellformed(cx, pe.import_jackknife(j, 'e|r1', idl=[b.idl['e|r1']]), 'import_jackknife')
    if cx.mode == 'sym':
        cx.patch(J, 'json', c11.JsonStub())
    r = J.import_json_string(J.create_json_string([a * b + c, [a, a * a]]), verbose=False)
    lib.check_wellformed(cx, r[0], 'json')
    lib.check_wellformed(cx, r[1][1], 'json-list')
    # chains whose plain string order differs from the ensemble-wise order ('eb|r1' < 'e|r1'), different lengths, inside a list / array / correlator
    p, q = c11.mk_rich(cx, 'p', 'prefix'), c11.mk_rich(cx, 'q', 'prefix')
    r = J.import_json_string(J.create_json_string([[p, q, p * q], np.array([q, p], dtype=object), pe.Corr([p, q])]), verbose=False)
    for k, o in enumerate(list(r[0]) + list(r[1]) + [r[2][0], r[2][1]]):
        lib.check_wellformed(cx, o if not isinstance(o, np.ndarray) else o[0], 'json-prefix[%d]' % k)
    for o in pe.derived_observable(lambda x, **kw: np.array([x[0] * x[1], x[1] + x[0]], dtype=object) if cx.mode == 'sym' else __import__('autograd.numpy').numpy.array([x[0] * x[1], x[1] + x[0]]), [a, b]):
        lib.check_wellformed(cx, o, 'derived-array')


HARNESSES = dict(ctor_idl=h_ctor_idl, bad_ctor=h_bad_ctor, closure=h_closure, producers=h_producers, names=h_names)


def jobs(tier, seed):
    J = []

    def add(h, **p):
        J.append(dict(harness=h, params=p))
    add('ctor_idl', n=5, lo=0, hi=7 if tier == 'quick' else 9)
    if tier == 'thorough':
        add('ctor_idl', n=6, lo=0, hi=8)
    add('bad_ctor')
    add('closure', layout_a={'e|r1': [1, 2, 3, 4, 5]}, layout_b={'e|r1': [1, 2, 3, 4, 5]})
    add('closure', layout_a={'e|r1': [1, 2, 3, 4, 5], 'e|r2': [1, 2, 4, 5, 6]}, layout_b={'f|r1': [2, 4, 6, 8, 10]})
    add('producers')
    add('names', func='check_names')
    add('names', func='check_covname')
    add('names', func='check_names3', timeout=150)
    return J


def apply_canary(name):
    from symx.mutate import mutate
    if name == 'range-detection':
        return mutate('pyerrors.obs', 'Obs.__init__', 'if len(dc) == 1:', 'if len(dc) <= 2:')
    if name == 'rsub-complex':
        return mutate('pyerrors.obs', 'Obs.__add__', 'return CObs(self, 0) + y', 'return derived_observable(lambda x, **kwargs: x[0] + y, [self], man_grad=[1])')
    raise KeyError(name)


def _cj(h, **p):
    return lambda tier, seed: [dict(harness=h, params=p)]


CANARIES = [
    dict(name='range-detection', what='range stored although the spacing is not constant', quick=True, jobs=_cj('ctor_idl', n=5, lo=0, hi=6)),
    dict(name='rsub-complex', what='complex operand produces a complex-valued Obs', jobs=_cj('closure', layout_a={'e|r1': [1, 2, 3, 4, 5]}, layout_b={'e|r1': [1, 2, 3, 4, 5]})),
]

META = dict(
    explanation='C04: (a) Obs.__init__ with symbolic configuration numbers (z3 integers): on every path a rejection implies "not strictly increasing", an acceptance implies strictly increasing, the stored list '
                'equals the input and is a range exactly when equally spaced (solver obligations); all listed kinds of malformed construction requests are rejected; (b) one step of every arithmetic operator between '
                'Obs / CObs / int / float / numpy float / complex in both operand orders, powers and elementary functions, and of the other producers (reweight, correlate, merge_obs, find_root, jackknife import, '
                'json import, vector-valued derived_observable) from well-formed operands: the structural invariant and the type closure are asserted on every result on every path. The same invariant is asserted '
                'on every result inside the checks of C01, C05, C07-C09, C11, C13, C17. (c) names: CrossHair (symbolic Python strings on z3 sequences) runs the REAL Obs / Covobs constructors on symbolic chain / covariance '
                'names: a request is accepted exactly when the names are unique and belong to one ensemble (text before the first separator), a covariance name exactly when it does not contain the separator - '
                '"Confirmed over all paths" within the stated string lengths; counterexamples are replayed as plain calls.',
    bounds='constructor: 5 (thorough 6) configuration numbers in [0,7] ([0,9]); names: 1-2 names of <= 2 characters, 3 names of <= 1 character, covariance names of <= 4 characters (any unicode characters; 2 names of <= 3 characters are not confirmed within 60 s); closure: two operand layouts; structure enumerated, values symbolic (the solver has little to decide in (b): exhaustive over the enumerated structure).',
    outside=['pickle', 'results of fits and readers are covered through the checks of C07/C08/C17 (compare -> check_wellformed)'],
    stubs=['numpy shim', 'fsolve / rapidjson contracts for the producers'],
    assumptions=[],
)
