"""C02 Gamma-method error estimate equals Wolff's estimator on every chain layout."""
import ast
import inspect
import textwrap

import numpy as np
import z3

from symx import core, lib, gammaspec, ast2smt
from symx.core import SV, If, sqrt

PROPERTY = 'C02'
OPTS = dict(timeout=120000, maxpaths=400, replay_retries=4)
MODS = ('pyerrors.obs', 'pyerrors.covobs')


def _ens(layout):
    out = {}
    for n in layout:
        out.setdefault(lib.ens_of(n), []).append(n)
    return {e: sorted(v) for e, v in out.items()}


def _clear_dicts(cx):
    import pyerrors as pe
    for d in ('S_dict', 'tau_exp_dict', 'N_sigma_dict'):
        cx.patch(pe.Obs, d, {})


# ------------------------------------------------------------------ Gamma level

def h_fft_exec(cx, idx, w_max, gap=1):
    """The FFT branch of the real _calc_gamma, executed: rfft / irfft of the shim are the exact correlation-theorem model
    (irfft(|rfft(x, P)|^2)[t] = sum_i x_i x_((i+t) mod P) on the sequence zero-padded to P; FFT numerics trusted), so the padding, the slice bounds
    and what is added to gamma[...] are whatever the current source computes. Must equal the direct summation at every lag < w_max,
    also for a replica shorter than w_max and for expanded (gapped) data."""
    import pyerrors.obs as O
    lib.sym_env(cx, *MODS, calc_gamma_direct=False)
    n = len(idx)
    d = np.array([cx.real('d%d' % i) for i in range(n)], dtype=object if cx.mode == 'sym' else float)
    a = O.Obs._calc_gamma(None, d.copy(), list(idx), n, w_max, True, gap)
    b = O.Obs._calc_gamma(None, d.copy(), list(idx), n, w_max, False, gap)
    if cx.expect(len(a) == w_max and len(b) == w_max, 'w_max entries'):
        for t in range(w_max):
            cx.prove_eq(a[t], b[t], 'Gamma_fft(%d) = Gamma_direct(%d)' % (t, t))


def h_gamma_level(cx, layout, warm=None, fft=False):
    """real _calc_gamma(fft=False) / _expand_deltas / _determine_gap / r_length / gamma_div on symbolic fluctuations:
    rho(t) = Gamma(t)/Gamma(0) with Gamma(t) = sum_r sum_{pairs t steps apart} delta_i delta_j / #pairs; S=0 gives the naive error.
    `warm`: layouts of other objects analysed earlier in the same process (history: nothing they leave behind may matter)."""
    lib.sym_env(cx, *MODS, calc_gamma_direct=not fft)
    _clear_dicts(cx)
    for k, wl in enumerate(warm or []):
        import pyerrors as pe
        names = sorted(wl)          # concrete data: only what the earlier analysis leaves behind matters
        ow = pe.Obs([np.array([1.0 + 0.37 * ((7 * c + 3 * k + j) % 5) for c in wl[n]]) for j, n in enumerate(names)], names, idl=[list(wl[n]) for n in names])
        ow.gamma_method(S=0, fft=False)
        ow.gamma_method(fft=False)
    o, spec = lib.mk_obs(cx, 'x', layout)
    o.gamma_method(S=0, fft=fft)           # fft=True: the FFT branch runs on the correlation-theorem model of rfft / irfft (h_fft_exec)
    ens = _ens(layout)
    dv2 = 0
    for e, reps in ens.items():
        if cx.mode == 'sym' and not core.is_sym(o.e_dvalue[e]):
            cx.ok('early-exit-path[%s]' % e)
            return
        if cx.mode == 'conc' and o.e_dvalue[e] == 0.0:
            return
        w_max = len(o.e_rho[e])
        N = sum(len(layout[r]) for r in reps)
        G, gap = gammaspec.gamma_spec_from_deltas([spec.deltas[r] for r in reps], w_max)
        # w_max ("the largest admissible lag") is taken from the code (DESIGN C02): the statement does not define it further
        cx.expect(w_max >= 1, 'w_max[%s]>=1' % e)
        g0 = G[0][0] / G[0][1]
        for t in range(w_max):
            if G[t][1] == 0:
                cx.prove_eq(o.e_rho[e][t], 0, 'rho[%s][%d]=0 (no pairs)' % (e, t))
            else:
                cx.prove_eq(o.e_rho[e][t] * g0, G[t][0] / G[t][1], 'rho[%s][%d]*Gamma0=Gamma(t)' % (e, t))
        cx.prove_eq(o.e_dvalue[e] * o.e_dvalue[e], g0 / (N - 1), 'S=0: dvalue[%s]^2 = Gamma0/(N-1)' % e)
        cx.prove_eq(o.e_tauint[e], 0.5, 'S=0: tauint[%s]' % e)
        cx.expect(o.e_windowsize[e] == 0, 'S=0: window[%s]' % e)
        dv2 = dv2 + g0 / (N - 1)
    cx.prove_eq(o.dvalue * o.dvalue, dv2, 'dvalue^2 = sum_e dvalue_e^2')
    # S=0 is exactly the standard error of the mean for a single replica
    if len(layout) == 1:
        (n, cf), = layout.items()
        m = spec.value
        N = len(cf)
        var = sum((spec.deltas[n][c]) * (spec.deltas[n][c]) for c in cf) / (N * (N - 1))
        cx.prove_eq(o.dvalue * o.dvalue, var, 'naive standard error')


def h_gap_error(cx, layout):
    """replicas without a common spacing are rejected"""
    lib.sym_env(cx, *MODS)
    o, spec = lib.mk_obs(cx, 'x', layout)
    try:
        o.gamma_method(S=0, fft=False)
    except ValueError:
        cx.ok('raises[no common spacing]')
    else:
        cx.fail('no-exception', 'gamma_method accepted replicas without a common spacing')


# ------------------------------------------------------------------ FFT branch: padding lemma (ast2smt)

def h_fft_lemma(cx):
    """From the statements of Obs._calc_gamma: padding is even, >= new_shape + max_gamma - 1 (no circular wrap-around below
    lag max_gamma) and max_gamma = min(new_shape, w_max). With these the correlation theorem makes the FFT branch equal to the
    direct summation; numpy's FFT itself is trusted."""
    import pyerrors.obs as O
    ns = cx.integer('new_shape', 1, None)
    wm = cx.integer('w_max', 1, None)
    if cx.mode == 'conc':
        # run the real function: fft vs direct on pseudo-random data of that shape
        n, w = min(int(ns), 60), min(int(wm), 40)
        d = np.array([core.default_value('d%d' % i) - 1.0 for i in range(n)])
        a = O.Obs._calc_gamma(None, d, range(1, n + 1), n, w, True, 1)
        b = O.Obs._calc_gamma(None, d, range(1, n + 1), n, w, False, 1)
        cx.prove_eq(list(a), list(b), 'fft=direct')
        return
    src = textwrap.dedent(inspect.getsource(O.Obs._calc_gamma))
    tree = ast.parse(src)
    assigns = {n.targets[0].id: n.value for n in ast.walk(tree) if isinstance(n, ast.Assign) and isinstance(n.targets[0], ast.Name)}
    cx.expect('max_gamma' in assigns and 'padding' in assigns, 'fft:statements-present')
    tr = ast2smt.T({'new_shape': ns.t, 'w_max': wm.t})
    mg = tr.ev(assigns['max_gamma'])
    tr.env['max_gamma'] = mg
    pad = tr.ev(assigns['padding'])
    cx.prove(pad % 2 == 0, 'padding even (irfft returns `padding` points)')
    cx.prove(pad >= ns.t + mg - 1, 'padding >= new_shape + max_gamma - 1 (no wrap-around for lags < max_gamma)')
    cx.prove(z3.And(mg <= ns.t, mg <= wm.t, z3.Or(mg == ns.t, mg == wm.t)), 'max_gamma = min(new_shape, w_max)')
    # the slice written is gamma[:max_gamma] += irfft(|rfft(deltas, padding)|^2)[:max_gamma]
    fft_stmt = [n for n in ast.walk(tree) if isinstance(n, ast.AugAssign)]
    txt = [ast.unparse(n) for n in fft_stmt]
    cx.expect(any(t.replace(' ', '') == 'gamma[:max_gamma]+=np.fft.irfft(np.abs(np.fft.rfft(deltas,padding))**2)[:max_gamma]' for t in txt),
              'fft:statement-shape', str(txt))


def h_expand_lemma(cx, n, gap):
    """_expand_deltas: for sorted idx whose differences are multiples of gapsize the slot (idx[i]-idx[0])//gapsize is
    injective, in range, and order preserving (ast2smt on the index expression, symbolic configuration numbers)."""
    import pyerrors.obs as O
    base = cx.integer('c0', 0, 50)
    steps = [cx.integer('k%d' % i, 1, 4) for i in range(n - 1)]
    if cx.mode == 'conc':
        idx = [int(base)]
        for s in steps:
            idx.append(idx[-1] + int(s) * gap)
        d = np.arange(1.0, n + 1.0)
        r = O._expand_deltas(d, idx, n, gap)
        cx.expect(len(r) == (idx[-1] - idx[0]) // gap + 1, 'expand:length')
        for i, c in enumerate(idx):
            cx.prove_eq(r[(c - idx[0]) // gap], d[i], 'expand:slot[%d]' % i)
        cx.prove_eq(sum(r), sum(d), 'expand:zeros-elsewhere')
        return
    src = textwrap.dedent(inspect.getsource(O._expand_deltas))
    tree = ast.parse(src)
    sub = [nd for nd in ast.walk(tree) if isinstance(nd, ast.Assign) and isinstance(nd.targets[0], ast.Subscript) and getattr(nd.targets[0].value, 'id', '') == 'ret']
    alloc = [nd for nd in ast.walk(tree) if isinstance(nd, ast.Assign) and getattr(nd.targets[0], 'id', '') == 'ret']
    if not cx.expect(len(sub) == 1 and len(alloc) == 1, 'expand:statement-shape'):
        return
    idx = [base.t]
    for s in steps:
        idx.append(idx[-1] + s.t * gap)

    class Idx:
        def __getitem__(self, k):
            return idx[k]
    slots = []
    for i in range(n):
        tr = ast2smt.T({'idx': Idx(), 'i': i, 'gapsize': gap})
        slots.append(tr.ev(sub[0].targets[0].slice))
    tr = ast2smt.T({'idx': Idx(), 'gapsize': gap, 'np': type('N', (), {'zeros': staticmethod(lambda k: k)})})
    length = tr.ev(alloc[0].value)
    for i in range(n):
        cx.prove(z3.And(slots[i] >= 0, slots[i] < length), 'slot[%d] in range' % i)
        cx.prove(slots[i] * gap == idx[i] - idx[0], 'slot[%d] = (cfg - cfg0)/gap exactly' % i)
        if i:
            cx.prove(slots[i] > slots[i - 1], 'slots strictly increasing (injective)[%d]' % i)
    cx.prove(length == (idx[-1] - idx[0]) / gap + 1, 'length = span/gap + 1')


# ------------------------------------------------------------------ post-processing level

def abstract_gamma(cx, layout, gsym=None):
    """Abstraction point: Obs._calc_gamma returns fresh symbols g_{replica,t} for symbolic fluctuations (the pair counts
    still come from the real code). The definition of g is the Gamma-level obligation (h_gamma_level)."""
    import pyerrors as pe
    if cx.mode != 'sym':
        return
    gsym = {} if gsym is None else gsym
    real_cg = pe.Obs._calc_gamma

    def cg(self, deltas, idx, shape, w_max, fft, gapsize):
        if isinstance(deltas, np.ndarray) and deltas.dtype == object and any(isinstance(v, SV) for v in deltas):
            rn = [r for r in self.deltas if self.deltas[r] is deltas][0]
            g = np.array([cx.real('g_%s_%d' % (rn.replace('|', '_'), t)) for t in range(w_max)], dtype=object)
            cx.assume(g[0] >= 0)     # Gamma(0) is a sum of squares
            gsym[rn] = g
            return g
        return real_cg(self, deltas, idx, shape, w_max, False, gapsize)
    cx.patch(pe.Obs, '_calc_gamma', cg)
    return gsym


def _pairs(cfgs, t, gap):
    s = set(cfgs)
    return sum(1 for c in cfgs if c + t * gap in s)


def h_post(cx, layout, mode, how, cov=False, vals=None):
    """real gamma_method from the abstraction point on: _calc_gamma returns fresh g_{r,t} for symbolic data (pair counts come
    from the real code); everything after it is compared with Wolff's formulas."""
    import pyerrors as pe
    lib.sym_env(cx, *MODS)
    _clear_dicts(cx)
    o, spec = lib.mk_obs(cx, 'x', layout)
    ens = _ens(layout)
    covspec = None
    if cov:
        c, covspec = lib.mk_covobs(cx, 'c', 'cv', 2)
        o = o + c
    gsym = {}
    if cx.mode == 'sym':
        real_cg = pe.Obs._calc_gamma

        def cg(self, deltas, idx, shape, w_max, fft, gapsize):
            if isinstance(deltas, np.ndarray) and deltas.dtype == object and any(isinstance(v, SV) for v in deltas):
                rn = [r for r in layout if self.deltas[r] is deltas][0]
                g = np.array([cx.real('g_%s_%d' % (rn.replace('|', '_'), t)) for t in range(w_max)], dtype=object)
                gsym[rn] = g
                return g
            return real_cg(self, deltas, idx, shape, w_max, False, gapsize)
        cx.patch(pe.Obs, '_calc_gamma', cg)
    # parameters
    vals = vals or {}
    P = {}
    kw = {}
    for e in ens:
        P[e] = dict(S=2.0, tau_exp=0.0, N_sigma=1.0)
    if mode == 's0':
        if how == 'kwarg':
            kw['S'] = 0
            for e in ens:
                P[e]['S'] = 0
        else:
            for e in ens:
                s_ = cx.real('S_' + e)
                cx.assume(s_ == 0)
                pe.Obs.S_dict[e] = s_
                P[e]['S'] = s_
    elif mode == 'std':
        for e in ens:
            if how == 'dict':
                s_ = cx.real('S_' + e)
                cx.assume(s_ > 0)
                pe.Obs.S_dict[e] = s_
                P[e]['S'] = s_
            elif how == 'kwarg':
                kw['S'] = vals.get('S', 1.5)
                P[e]['S'] = kw['S']
            elif how == 'global':
                pass
    else:
        for e in ens:
            if how == 'dict':
                t_ = cx.real('texp_' + e)
                n_ = cx.real('nsig_' + e)
                cx.assume(t_ > 0)
                cx.assume(n_ >= 0)
                pe.Obs.tau_exp_dict[e] = t_
                pe.Obs.N_sigma_dict[e] = n_
                P[e].update(tau_exp=t_, N_sigma=n_)
            else:
                kw['tau_exp'] = vals.get('tau_exp', 3.0)
                kw['N_sigma'] = vals.get('N_sigma', 2)
                P[e].update(tau_exp=kw['tau_exp'], N_sigma=kw['N_sigma'])
    kw['fft'] = False if cx.mode == 'sym' else bool(vals.get('fft', False))
    o.gamma_method(**kw)
    dv2 = 0
    ddv2 = 0
    for e, reps in ens.items():
        w_max = len(o.e_rho[e])
        N = sum(len(layout[r]) for r in reps)
        gap = gammaspec.common_gap([layout[r] for r in reps])
        if cx.mode == 'sym':
            G = []
            for t in range(w_max):
                div = max(1, sum(_pairs(layout[r], t, gap) for r in reps))
                G.append(sum(gsym[r][t] for r in reps) / div)
            cx.fact(G[0].t >= 0) if False else None
        else:
            raw, _ = gammaspec.gamma_spec_from_deltas([lib.spec_of_obs(o).deltas[r] for r in reps], w_max)
            G = [(a / max(1, b)) for a, b in raw]
        m = 's0' if mode == 's0' else ('texp' if mode == 'texp' else 'std')
        sp = gammaspec.wolff(cx, G, N, S=P[e]['S'], tau_exp=P[e]['tau_exp'], N_sigma=P[e]['N_sigma'], mode=m)
        cx.prove_eq(o.e_windowsize[e], sp['W'], 'W[%s]' % e)
        cx.prove_eq(o.e_tauint[e], sp['tau'], 'tauint[%s]' % e)
        cx.prove_eq(o.e_dtauint[e], sp['dtau'], 'dtauint[%s]' % e)
        cx.prove_eq(o.e_dvalue[e], sp['dv'], 'dvalue[%s]' % e)
        cx.prove_eq(o.e_ddvalue[e], sp['ddv'], 'ddvalue[%s]' % e)
        early_path = (not core.is_sym(o.e_dvalue[e])) if cx.mode == 'sym' else (o.e_dvalue[e] == 0.0 and o.e_windowsize[e] == 0 and mode != 's0')
        if not early_path:
            W = o.e_windowsize[e]
            for t in range(w_max):
                cx.prove_eq(o.e_rho[e][t], sp['rho'][t], 'rho[%s][%d]' % (e, t))
                cx.prove_eq(o.e_n_tauint[e][t], sp['n_tauint'][t], 'n_tauint[%s][%d]' % (e, t))
                cx.prove_eq(o.e_n_dtauint[e][t], sp['n_dtauint'][t], 'n_dtauint[%s][%d]' % (e, t))
            if mode == 'std':
                cx.prove_eq(o.e_drho[e][W], sp['drho'](W), 'drho[%s][W]' % e)
            elif mode == 'texp':
                for t in range(1, W + 2):
                    cx.prove_eq(o.e_drho[e][t], sp['drho'](t), 'drho[%s][%d]' % (e, t))
        dv2 = dv2 + sp['dv'] * sp['dv']
        ddv2 = ddv2 + (sp['dv'] * sp['ddv']) * (sp['dv'] * sp['ddv'])
    if covspec is not None:
        g = covspec.grads['cv']
        C = covspec.covs['cv']
        q = sum(g[i] * float(C[i, j]) * g[j] for i in range(len(g)) for j in range(len(g)))
        cx.prove_eq(o.e_dvalue['cv'] * o.e_dvalue['cv'], q, 'covobs: dvalue^2 = g^T Sigma g')
        dv2 = dv2 + q
    cx.prove_eq(o.dvalue * o.dvalue, dv2, 'dvalue^2 = sum_e dvalue_e^2 + J Sigma J^T')
    cx.prove_eq(o.ddvalue * o.dvalue, If(o.dvalue == 0, 0, sqrt(ddv2)) if cx.mode == 'sym' else (0.0 if o.dvalue == 0 else sqrt(ddv2)), 'ddvalue')


def h_texp_short(cx, layout):
    """tau_exp > 0 needs at least 8 samples: shorter chains raise"""
    import pyerrors as pe
    lib.sym_env(cx, *MODS)
    _clear_dicts(cx)
    o, spec = lib.mk_obs(cx, 'x', layout)
    try:
        o.gamma_method(tau_exp=2.0, fft=False)
    except ValueError:
        cx.ok('raises[too short for tau_exp]')
    else:
        if cx.mode == 'sym' and not core.is_sym(o.dvalue):
            cx.ok('early-exit-path')
        elif cx.mode == 'conc' and o.dvalue == 0:
            pass
        else:
            cx.fail('no-exception', 'tau_exp analysis accepted a chain with w_max//2 <= 1')


def h_bad_kwargs(cx):
    import pyerrors as pe
    lib.sym_env(cx, *MODS)
    o, _ = lib.mk_obs(cx, 'x', {'e|r1': [1, 2, 3, 4, 5, 6]})
    for k in ('S', 'tau_exp', 'N_sigma'):
        for v, exc in ((-1, ValueError), ('2', TypeError)):
            try:
                o.gamma_method(**{k: v})
            except exc:
                cx.ok('raises[%s=%r]' % (k, v))
            else:
                cx.fail('no-exception[%s=%r]' % (k, v))


HARNESSES = dict(gamma_level=h_gamma_level, gap_error=h_gap_error, fft_lemma=h_fft_lemma, fft_exec=h_fft_exec, expand_lemma=h_expand_lemma, post=h_post,
                 texp_short=h_texp_short, bad_kwargs=h_bad_kwargs)


def jobs(tier, seed):
    J = []

    def add(h, **p):
        J.append(dict(harness=h, params=p))
    L1 = [
        {'e|r1': list(range(1, 8))},
        {'e|r1': [2, 4, 6, 8, 10, 12]},
        {'e|r1': [1, 2, 3, 5, 6, 8, 9]},                 # irregular, gap 1
        {'e|r1': [2, 4, 8, 10, 14, 16, 18]},             # gapped with common spacing 2
        {'e|r1': list(range(1, 7)), 'e|r2': list(range(1, 9))},
        {'e|r1': [1, 2, 3, 4, 5, 6], 'e|r2': [2, 4, 6, 8, 10, 12, 14]},    # different spacings sharing a common one
        {'e|r1': [1, 3, 4, 6, 7], 'e|r2': [10, 11, 12, 14, 15, 16], 'e|r3': [5, 6, 7, 8, 9]},
        {'e|r1': list(range(1, 7)), 'f|r1': [3, 6, 9, 12, 15, 18, 21]},
        {'e|r1': list(range(1, 13))},
        {'e|r1': list(range(1, 6)), 'e|r2': list(range(1, 17))},            # a replica shorter than w_max
        {'e|r1': [2, 4, 6, 8, 10], 'e|r2': list(range(1, 15)), 'e|r3': [3, 4, 5, 7, 8, 9]},
    ]
    if tier == 'thorough':
        L1 += [{'e|r1': list(range(1, 17))}, {'e|r1': [5, 10, 20, 25, 30, 40, 45, 50, 60]}, {'e|r1': list(range(1, 10)), 'e|r2': list(range(3, 30, 3)), 'e|r3': [1, 2, 4, 5, 7, 8, 10]}]
    for l in L1:
        add('gamma_level', layout=l)
    add('gap_error', layout={'e|r1': [2, 4, 6, 8, 10], 'e|r2': [3, 6, 9, 12, 15]})
    add('gap_error', layout={'e|r1': [1, 3, 5, 7, 9, 11], 'e|r2': [1, 4, 7, 10, 13]})
    add('fft_lemma')
    # the FFT branch executed on the correlation-theorem model: long and short replicas relative to w_max, odd / even lengths, expanded data
    for idx, wm, gap in (([1, 2, 3, 4, 5, 6, 7, 8], 4, 1), ([1, 2, 3, 4, 5, 6, 7], 3, 1), ([1, 2, 3, 4, 5], 8, 1), ([1, 2, 3, 4, 5, 6], 6, 1), ([1, 2, 3], 7, 1),
                         ([2, 4, 8, 10, 14], 4, 2), ([1, 4, 7, 13], 6, 3), ([5], 3, 1)):
        J.append(dict(harness='fft_exec', params=dict(idx=idx, w_max=wm, gap=gap), opts=dict(abs_scale=1.0)))      # replay: FFT rounding noise against exact zeros must not count
    add('gamma_level', layout={'e|r1': [1, 2, 3, 4, 5, 6, 7, 8, 9, 10, 11, 12], 'e|r2': [1, 2, 3, 4, 5]}, fft=True)     # a replica shorter than w_max through the FFT branch
    add('gamma_level', layout={'e|r1': [2, 4, 6, 10, 12, 14, 16], 'f|r1': [1, 2, 3, 4, 5, 6]}, fft=True)
    for n, gap in ((5, 1), (6, 2), (8, 3)):
        add('expand_lemma', n=n, gap=gap)
    add('bad_kwargs')
    # post-processing level
    P1 = {'e|r1': list(range(1, 11))}                     # w_max 5
    P1s = {'e|r1': list(range(3, 36, 3))}                 # strided, w_max 5
    P2 = {'e|r1': list(range(1, 8)), 'e|r2': list(range(1, 10))}    # two replicas, w_max 4
    P3 = {'e|r1': [1, 2, 3, 5, 6, 8, 9, 10]}              # irregular
    PE = {'e|r1': list(range(1, 9)), 'f|r1': list(range(2, 18, 2))}     # two ensembles
    PT = {'e|r1': list(range(1, 17))}                     # w_max 8 for tau_exp
    PT2 = {'e|r1': list(range(1, 21))}                    # w_max 10
    for l in (P1, P1s, P2, P3):
        add('post', layout=l, mode='s0', how='kwarg')
        add('post', layout=l, mode='std', how='dict')
    add('post', layout=P1, mode='s0', how='dict')
    add('post', layout=P1, mode='std', how='kwarg', vals=dict(S=1.5))
    add('post', layout=P1, mode='std', how='global')
    add('post', layout=P2, mode='std', how='dict', cov=True)
    add('post', layout=PE, mode='std', how='dict')
    add('post', layout=PE, mode='s0', how='kwarg', cov=True)
    add('post', layout=PT, mode='texp', how='dict')
    add('post', layout=PT, mode='texp', how='kwarg', vals=dict(tau_exp=3.0, N_sigma=2))
    add('texp_short', layout={'e|r1': [1, 2, 3, 4, 5, 6, 7]})
    add('texp_short', layout={'e|r1': [1, 2, 3, 4, 5]})
    if tier == 'thorough':
        add('post', layout={'e|r1': list(range(1, 14))}, mode='std', how='dict')     # w_max 6
        add('post', layout=PT2, mode='texp', how='dict')
        add('post', layout=PT, mode='std', how='dict')                               # w_max 8
        add('post', layout={'e|r1': list(range(1, 11)), 'e|r2': list(range(1, 8)), 'e|r3': [2, 4, 6, 8, 10, 12]}, mode='std', how='dict')
    return J


def apply_canary(name):
    from symx.mutate import mutate
    if name == 'bias-2n':
        return mutate('pyerrors.obs', 'Obs.gamma_method', '(1 + (2 * n + 1) / e_N) / (1 + 1 / e_N)  # Bias correction', '(1 + (2 * n) / e_N) / (1 + 1 / e_N)  # Bias correction')
    if name == 'pair-count-N':
        return mutate('pyerrors.obs', 'Obs.gamma_method', 'e_gamma[e_name] /= gamma_div[:w_max]', 'e_gamma[e_name] /= e_N')
    if name == 'drho-window':
        return mutate('pyerrors.obs', 'Obs.gamma_method', '- 2 * self.e_rho[e_name][i] * self.e_rho[e_name][1:w_max - i])', '- self.e_rho[e_name][i] * self.e_rho[e_name][1:w_max - i])')
    if name == 'tail-at-W':
        return mutate('pyerrors.obs', 'Obs.gamma_method', 'texp * np.abs(self.e_rho[e_name][n + 1])', 'texp * np.abs(self.e_rho[e_name][n])')
    if name == 'window-off-by-one':
        return mutate('pyerrors.obs', 'Obs.gamma_method', 'if g_w[n - 1] < 0 or n >= w_max - 1:', 'if g_w[n] < 0 or n >= w_max - 2:')
    raise KeyError(name)


def _cj(h, **p):
    return lambda tier, seed: [dict(harness=h, params=p)]


_P1 = {'e|r1': list(range(1, 11))}
CANARIES = [
    dict(name='bias-2n', what='bias factor 2n instead of 2n+1', jobs=_cj('post', layout=_P1, mode='std', how='dict'), quick=True),
    dict(name='pair-count-N', what='Gamma(t) normalised by N instead of the number of pairs', jobs=_cj('gamma_level', layout={'e|r1': [1, 2, 3, 5, 6, 8, 9]})),
    dict(name='drho-window', what='factor in drho', jobs=_cj('post', layout=_P1, mode='std', how='dict')),
    dict(name='tail-at-W', what='tail attached at W instead of W+1', jobs=_cj('post', layout={'e|r1': list(range(1, 17))}, mode='texp', how='dict')),
    dict(name='window-off-by-one', what='window loop off by one', jobs=_cj('post', layout=_P1, mode='std', how='dict')),
]

META = dict(
    explanation='C02 compositionally: (1) Gamma level: the real _calc_gamma(fft=False), _expand_deltas, _determine_gap, r_length/w_max/gamma_div run on '
                'symbolic fluctuations and rho(t)*Gamma(0) = Gamma(t) with Gamma(t) = sum_r sum_{pairs t steps apart} delta_i delta_j / #pairs; (2) FFT branch: '
                'padding lemma for all integers + index lemma of _expand_deltas (ast2smt from the current source); (3) post-processing level: the real gamma_method '
                'with Gamma(t) abstracted to fresh symbols is compared per path with Wolff\'s formulas (rho, cumulative tau with clipping, automatic window, '
                'bias factor, dtau eq. 42, drho, Schaefer tail with N_sigma, S=0 case, sum over ensembles + J Sigma J^T, ddvalue).',
    bounds='Gamma level: 1-3 replicas, 5..12 (thorough 16) configurations, contiguous / strided / gapped / irregular with common spacing, 1-2 ensembles; post level: '
           'w_max 4..5 (thorough 6 and 8) for S>0 symbolic, w_max 8 (thorough 10) for tau_exp, S / tau_exp / N_sigma symbolic through the class dictionaries or '
           'concrete through arguments / global default; one covariance input of dimension 2; padding lemma: all integers >= 1.',
    outside=['numpy FFT numerics (the FFT branch is covered by the padding lemma + correlation theorem)', 'chains longer than the bound', 'floating-point rounding',
             '|Gamma(0)| < 10*tiny early exit is specified as in the code (documented: prevent division by zero)'],
    stubs=['numpy shim with symbolic eps/tiny', '_calc_gamma abstraction point (post level): returns fresh g_{r,t}; its definition is the Gamma-level obligation'],
    assumptions=['exp/log/sqrt uninterpreted (functional consistency, sqrt^2 = id, exp > 0)'],
)
