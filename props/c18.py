"""C18 Truncated measurement files never produce wrong numbers (openQCD binary formats, byte-granular symbolic length)."""
import ast
import inspect

from props import readers
from props.readers import h_read  # noqa
from symx import core

PROPERTY = 'C18'
OPTS = dict(timeout=60000, maxpaths=3000)


def scan_source():
    """(reads, bad uses, length tests) of the current openQCD reader source: the results of fp.read may only flow into struct.unpack,
    len(...) compared with the number of bytes just requested, and truthiness, for the partial-read classes of the file model to be exact"""
    import pyerrors.input.openQCD as Q
    tree = ast.parse(inspect.getsource(Q))
    reads = set()
    for node in ast.walk(tree):
        if isinstance(node, ast.Assign) and isinstance(node.value, ast.Call) and ast.unparse(node.value.func) == 'fp.read':
            for t in node.targets:
                reads.add(ast.unparse(t))
    bad = []
    for fdef in [n for n in ast.walk(tree) if isinstance(n, ast.FunctionDef)]:
        parent = {}
        for n in ast.walk(fdef):
            for ch in ast.iter_child_nodes(n):
                parent[ch] = n
        events = [(n.lineno, n.col_offset, n) for n in ast.walk(fdef) if isinstance(n, ast.Name) and n.id in reads]
        state = {}
        for _, _, n in sorted(events, key=lambda e: (e[0], e[1])):
            par = parent.get(n)
            if isinstance(n.ctx, ast.Store):
                is_read = isinstance(par, ast.Assign) and isinstance(par.value, ast.Call) and ast.unparse(par.value.func) == 'fp.read'
                state[n.id] = 'read' if is_read else 'other'
                continue
            if state.get(n.id) != 'read':
                continue
            ok = (isinstance(par, ast.Call) and ast.unparse(par.func) in ('struct.unpack', 'len')) or (isinstance(par, ast.UnaryOp) and isinstance(par.op, ast.Not))
            if not ok:
                bad.append((n.lineno, ast.unparse(par) if par is not None else ''))
    lens = set(ast.unparse(n) for n in ast.walk(tree) if isinstance(n, ast.Compare) and 'len(t)' in ast.unparse(n))
    return reads, bad, lens


def abstraction_justified():
    try:
        reads, bad, lens = scan_source()
    except Exception:
        return False
    return reads <= {'t', 'cnfgt'} and not bad and lens <= {'len(t) < 4', 'len(t) < 8 * tmax'}


def h_scan(cx):
    """justification of the partial-read classes (AST scan of the current source, repeated on every run). If the scan does not justify them
    the read jobs fall back to byte-exact partial lengths (every truncation offset its own path class)."""
    reads, bad, lens = scan_source()
    ok = abstraction_justified()
    cx.ok('partial-read classes %s (reads %s, other uses %s, length tests %s)' % ('justified' if ok else 'NOT justified: byte-exact fallback', sorted(reads), bad[:3], sorted(lens)))


from props import sfcf  # noqa
HARNESSES = dict(read=h_read, scan=h_scan, sfcf_cut=sfcf.h_cut)


def jobs(tier, seed):
    J = [dict(harness='scan', params={})]
    exact = not abstraction_justified()

    def add(**p):
        if exact:
            p['exact'] = True
        J.append(dict(harness='read', params=p, opts=dict(maxpaths=30000) if exact else {}))
    for fmt in ('rwms14', 'rwms16', 'rwms20', 'qtop', 'ms5'):
        add(fmt=fmt, reps=['r0'], nrec=[6], first=[1], step=[1], truncate=0)
        add(fmt=fmt, reps=['r0', 'r1'], nrec=[5, 7], first=[1, 1], step=[1, 1], truncate=1)
    add(fmt='rwms16', reps=['r0'], nrec=[7], first=[2], step=[2], truncate=0, p=dict(nrw=1, nfct=2, nsrc=1))
    add(fmt='rwms20', reps=['r0'], nrec=[6], first=[1], step=[1], truncate=0, p=dict(nrw=2, nfct=1, nsrc=1))
    add(fmt='qtop', reps=['r0'], nrec=[7], first=[1], step=[1], truncate=0, p=dict(nn=1, tmax=2, index_aim=0))
    add(fmt='ms5', reps=['r0', 'r1'], nrec=[7, 5], first=[1, 1], step=[1, 1], truncate=0, p=dict(tmax=1, corr='g1'))
    add(fmt='sfqcd', reps=['r0'], nrec=[7], first=[1], step=[1], truncate=0, trunc_from=5, p=dict(ncs=1, tmax=1, index_aim=0))
    add(fmt='sfqcd', reps=['r0'], nrec=[6], first=[1], step=[1], truncate=0, trunc_from=5, p=dict(ncs=1, tmax=2, index_aim=1, zeuthen=True))
    # sfcf text files cut at every byte: first / last file of the set (compact, folder layout), replica files of the appended layout
    R2 = dict(reps=['r0', 'r1'], cfgs=[[1, 2, 3, 4, 5], [2, 4, 6, 8, 10, 12]])
    W = 120

    def cut(layout, target, size, req=('f_A', 0, None), names=('f_A', 'f_1'), lo=0, **kw):
        for a in range(lo, size, W):
            J.append(dict(harness='sfcf_cut', params=dict(layout=layout, which=target, names=list(names), req=list(req), lo=a, hi=a + W, **dict(R2, **kw)), opts=dict(maxpaths=2 * W + 50, tol=1e-13, abs_scale=1.0, replay_keep=['L'])))      # stored numbers are read back bit for bit: replay compares almost exactly
    cut('c', 'data_c_r0/data_c_r0_n1', 1080)
    cut('c', 'data_c_r1/data_c_r1_n12', 1080, req=('f_1', 0, 1))
    cut('c', 'data_c_r0/data_c_r0_n3', 1080, req=('f_A', 1, None))
    cut('o', 'test_r0/cfg1/f_A', 720)
    cut('o', 'test_r1/cfg6/f_A', 720, req=('f_A', 1, None))
    cut('o', 'test_r0/cfg5/f_1', 720, req=('f_1', 0, 0))
    cut('a', 'data_a_r0.f_A', 3600)
    cut('a', 'data_a_r1.f_A', 4300, lo=2600)
    cut('a', 'data_a_r1.f_1', 4100, lo=2200, req=('f_1', 0, 0))
    if tier == 'thorough':
        cut('c', 'data_c_r1/data_c_r1_n2', 1500, req=('F_V0', 0, 1), names=('f_A', 'f_1', 'F_V0'), T=3)
        cut('o', 'test_r1/cfg2/F_V0', 900, req=('F_V0', 0, 0), names=('f_A', 'f_1', 'F_V0'), T=3)
        cut('a', 'data_a_r1.f_A', 2600)
    if tier == 'thorough':
        add(fmt='rwms16', reps=['r0', 'r1', 'r2'], nrec=[5, 8, 5], first=[1, 1, 1], step=[1, 1, 1], truncate=1, p=dict(nrw=2, nfct=1, nsrc=2))
        add(fmt='qtop', reps=['r0'], nrec=[9], first=[1], step=[1], truncate=0, p=dict(nn=2, tmax=3, index_aim=2))
    return J


def apply_canary(name):
    from symx.mutate import mutate
    if name == 'drop-last-record':
        return mutate('pyerrors.input.openQCD', 'read_rwms', "            diffmeas = configlist[-1][-1] - configlist[-1][-2]", "            configlist[-1] = configlist[-1][:-1]\n            tmp_array = [ta[:-1] for ta in tmp_array]\n            diffmeas = configlist[-1][-1] - configlist[-1][-2]")
    raise KeyError(name)


def _cj(**p):
    return lambda tier, seed: [dict(harness='read', params=p)]


CANARIES = [
    dict(name='drop-last-record', what='the last complete record is silently dropped', quick=True, jobs=_cj(fmt='rwms16', reps=['r0'], nrec=[8], first=[1], step=[1], truncate=0)),
]

META = dict(
    explanation='C18 (openQCD binary formats and sfcf text formats): sfcf: one file of a synthetic set (props/sfcf.py) is cut after L bytes, L a symbolic integer that the solver enumerates byte by byte (one path per offset, the stored numbers stay symbolic: a damaged token parses to a concrete number that can never equal its symbol); the reader must raise or return exactly the stored numbers of the complete records. Binary: the readers of C17 run on typed buffers whose length L is a symbolic integer in [0, len-1]; every read is cut at L (full / empty / partial; partial lengths individually '
                'for reads <= 16 bytes, one class otherwise - justified by an AST scan of the current source showing that read results only flow into struct.unpack, len(t) < 4 and truthiness). On every path the outcome '
                'must be an exception or exactly the observables of the complete records preceding the cut (the path must determine their number; all of them must be present; never fewer than five).',
    bounds='1-2 (thorough 3) replicas, the truncated file holds 5-9 records; record layouts with 1-2 factors / sources / flow times; all truncation lengths 0..len-1 are covered by the path partition. sfcf: 2 replicas x 5-6 configurations, T = 2 (thorough 3); every byte of 3 files of the compact layout, 3 of the folder layout, and of the replica files of the appended layout (first replica completely, second replica from the fifth chunk on).',
    outside=['truncated json.gz / xml.gz / csv.gz exports (gzip, rapidjson, lxml, pandas decide): not applicable', 'real file system semantics beyond short reads at end of file'],
    stubs=['typed-buffer file model with symbolic length', 'sfcf: in-memory text tree, float -> token table', 'numpy shim', 'exp uninterpreted'],
    assumptions=[],
)
