"""CrossHair contracts on the REAL constructors (imported from /repo): which chain / covariance names are accepted.
Strings are symbolic (z3 sequences inside CrossHair); samples are concrete because the validation does not look at them."""
from typing import List

import numpy as np
import pyerrors.obs as O
import pyerrors.covobs as CO


class _Stop(BaseException):
    pass


class _StopList(list):
    """an idl list whose iteration ends the constructor: everything after the validation of the names (dictionaries keyed by the names) is cut off"""
    def __iter__(self):
        raise _Stop()


_S = [np.arange(5.0), np.arange(5.0) + 1, np.arange(5.0) + 2]


def _ens(n: str) -> str:
    i = n.find('|')
    return n if i < 0 else n[:i]


def spec_names(names: List[str]) -> bool:
    """accepted iff the names are unique and all chains belong to one ensemble (text before the first '|')"""
    return len(set(names)) == len(names) and all(_ens(n) == _ens(names[0]) for n in names)


def _ctor(names: List[str]) -> bool:
    try:
        O.Obs(_S[:len(names)], list(names), idl=_StopList([range(1, 6)] * len(names)))
    except _Stop:
        return True
    except (ValueError, TypeError):
        return False
    return True


def check_names(names: List[str]) -> bool:
    """
    pre: 1 <= len(names) <= 2
    pre: all(len(n) <= 2 for n in names)
    post: __return__ == spec_names(names)
    """
    return _ctor(names)


def spec_names3(names: List[str]) -> bool:
    return spec_names(names)


def check_names3(names: List[str]) -> bool:
    """
    pre: len(names) == 3
    pre: all(len(n) <= 1 for n in names)
    post: __return__ == spec_names3(names)
    """
    return _ctor(names)


def spec_covname(name: str) -> bool:
    return '|' not in name


def check_covname(name: str) -> bool:
    """
    pre: len(name) <= 4
    post: __return__ == spec_covname(name)
    """
    try:
        CO.Covobs(1.0, np.array([[0.25]]), name)
    except Exception:
        return False
    return True
