"""C13 Jackknife and bootstrap export/import are exact resampling transforms."""
import hashlib

import numpy as np

from symx import core, lib, contracts
from symx.core import If

PROPERTY = 'C13'
OPTS = dict(timeout=60000, maxpaths=64)
MODS = ('pyerrors.obs', 'pyerrors.covobs')


def _mk(cx, idl, name='ens|r1'):
    import pyerrors as pe
    x = {c: cx.real('x_%d' % c) for c in idl}
    arr = np.array([x[c] for c in idl], dtype=object if cx.mode == 'sym' else float)
    o = pe.Obs([arr], [name], idl=[list(idl)])
    return o, x, lib.primary_spec({name: x})


def h_jackknife(cx, idl):
    import pyerrors as pe
    lib.sym_env(cx, *MODS)
    name = 'ens|r1'
    o, x, spec = _mk(cx, idl, name)
    n = len(idl)
    j = o.export_jackknife()
    cx.expect(len(j) == n + 1, 'jack:length')
    tot = sum(x[c] for c in idl)
    cx.prove_eq(j[0], tot / n, 'jack[0]=mean')
    for k, c in enumerate(idl):
        cx.prove_eq(j[k + 1], (tot - x[c]) / (n - 1), 'jack[%d]=leave-one-out' % (k + 1))
    # import o export = identity, configuration list included
    o2 = pe.import_jackknife(j, name, idl=[o.idl[name]])
    lib.compare(cx, o2, spec, 'import')
    cx.expect(type(o2.idl[name]) is type(o.idl[name]) and list(o2.idl[name]) == list(idl), 'import:idl')
    # import of arbitrary jackknife samples followed by export returns them
    js = np.array([cx.real('j_%d' % k) for k in range(n + 1)], dtype=object if cx.mode == 'sym' else float)
    if cx.mode == 'sym':
        pass
    else:
        js[0] = np.mean(js[1:])    # entry 0 is by definition the mean of the underlying data = mean of the jackknife samples
    o3 = pe.import_jackknife(js, name, idl=[list(idl)])
    j3 = o3.export_jackknife()
    m = sum(js[1:]) / n
    for k in range(1, n + 1):
        # holds when js[0] is the mean of the samples; stated with the mean substituted
        cx.prove_eq(j3[k] + (js[0] - m) * 0 + (o3.value - m) * n / (n - 1) * 0, js[k] + (o3.value - m) * n / (n - 1), 'export(import)[%d]' % k)
    # jackknife variance = squared naive error
    o.gamma_method(S=0)
    if not core.is_sym(o.dvalue) and cx.mode == 'sym':
        # documented early exit "|Gamma(0)| < 10 * tiny: prevent division by zero" -- error reported as exactly 0 (specified in C02)
        cx.ok('early-exit-path')
        return
    if cx.mode == 'conc' and o.dvalue == 0.0:
        return
    jm = sum(j[1:]) / n
    var = sum((j[k] - jm) * (j[k] - jm) for k in range(1, n + 1)) * (n - 1) / n
    cx.prove_eq(o.dvalue * o.dvalue, var, 'jackknife-variance=dvalue^2')
    cx.prove_eq(o.dvalue * o.dvalue, sum((x[c] - tot / n) * (x[c] - tot / n) for c in idl) / (n * (n - 1)), 'dvalue^2=naive')


def h_jack_multi(cx):
    import pyerrors as pe
    lib.sym_env(cx, *MODS)
    a, _ = lib.mk_obs(cx, 'a', {'e|r1': [1, 2, 3, 4, 5], 'e|r2': [1, 2, 3, 4, 5]})
    for f in ('export_jackknife', 'export_bootstrap'):
        try:
            getattr(a, f)()
        except ValueError:
            cx.ok('raises[%s]' % f)
        else:
            cx.fail('no-exception[%s]' % f)


def _table(cx, ns, n, kind):
    if isinstance(kind, str) and kind.startswith('sym'):
        # `nsym` entries per row are symbolic integers in [0, n) (positions rotate with the row), the others concrete
        nsym = int(kind[3:] or 1)
        rows = [[cx.integer('r_%d_%d' % (s, k), 0, n - 1) if (k - s) % n < nsym else (3 * k + s + 1) % n for k in range(n)] for s in range(ns)]
        if cx.mode == 'sym':
            t = np.empty((ns, n), dtype=object)
            for s in range(ns):
                for k in range(n):
                    t[s, k] = rows[s][k]
            return t
        return np.array(rows, dtype=int)
    rng = np.random.default_rng(kind)
    return rng.integers(0, n, size=(ns, n))


def h_boot_export(cx, idl, ns, kind, order='C'):
    """order: memory layout of the random-number table the caller supplies ('C' row-major, 'F' column-major, 'T' a transposed view)"""
    lib.sym_env(cx, *MODS)
    name = 'ens|r1'
    o, x, spec = _mk(cx, idl, name)
    n = len(idl)
    t = _table(cx, ns, n, kind)
    if order == 'F':
        t = np.asfortranarray(t)
    elif order == 'T':
        t = np.ascontiguousarray(t.T).T
    b = o.export_bootstrap(samples=ns, random_numbers=t)
    cx.expect(len(b) == ns + 1, 'boot:length')
    xs = [x[c] for c in idl]
    cx.prove_eq(b[0], sum(xs) / n, 'boot[0]=mean')
    for s in range(ns):
        tot = 0
        for k in range(n):
            r = t[s, k]
            if isinstance(r, core.SInt):
                pick = 0
                for v in range(n):
                    pick = pick + If(r == v, xs[v], 0)
            else:
                pick = xs[int(r)]
            tot = tot + pick
        cx.prove_eq(b[s + 1], tot / n, 'boot[%d]=mean-of-resampled' % (s + 1))


def h_boot_seed(cx, idl, ns, name):
    """default seeding: md5 of the chain name -> numpy default_rng -> integers(0, N, (samples, N))"""
    import pyerrors as pe
    lib.sym_env(cx, *MODS)
    o, x, spec = _mk(cx, idl, name)
    n = len(idl)
    b = o.export_bootstrap(samples=ns)
    seed = int(hashlib.md5(name.encode()).hexdigest(), 16) & 0xFFFFFFFF
    t = np.random.default_rng(seed).integers(0, n, size=(ns, n))
    xs = [x[c] for c in idl]
    for s in range(ns):
        cx.prove_eq(b[s + 1], sum(xs[int(r)] for r in t[s]) / n, 'seeded-boot[%d]' % (s + 1))
    # a second observable on the same chain is resampled with the same table (chain-consistent)
    y = {c: cx.real('y_%d' % c) for c in idl}
    o2 = pe.Obs([np.array([y[c] for c in idl], dtype=object if cx.mode == 'sym' else float)], [name], idl=[list(idl)])
    b2 = o2.export_bootstrap(samples=ns)
    ys = [y[c] for c in idl]
    for s in range(ns):
        cx.prove_eq(b2[s + 1], sum(ys[int(r)] for r in t[s]) / n, 'seeded-boot-2nd[%d]' % (s + 1))
    # observables of other lengths on the same chain name (shorter, then longer), same number of samples: each gets the table of its own length
    for tag, idl3 in (('short', list(idl)[:-1] if len(idl) > 5 else list(idl) + [max(idl) + 1]), ('long', list(idl) + [max(idl) + 3, max(idl) + 4])):
        z = {c: cx.real('z%s_%d' % (tag, c)) for c in idl3}
        o3 = pe.Obs([np.array([z[c] for c in idl3], dtype=object if cx.mode == 'sym' else float)], [name], idl=[list(idl3)])
        n3 = len(idl3)
        try:
            b3 = o3.export_bootstrap(samples=ns)
        except core.Realize:
            raise
        except Exception as e:
            cx.fail('seeded-boot-%s: export raised' % tag, '%s: %s' % (type(e).__name__, e))
            continue
        t3 = np.random.default_rng(seed).integers(0, n3, size=(ns, n3))
        zs = [z[c] for c in idl3]
        for s in range(ns):
            cx.prove_eq(b3[s + 1], sum(zs[int(r)] for r in t3[s]) / n3, 'seeded-boot-%s[%d]' % (tag, s + 1))


def h_boot_import(cx, n, ns, seed, order='C'):
    """import with a concrete full-column-rank table restores the observable (lstsq = normal equations)"""
    import pyerrors as pe
    lib.sym_env(cx, *MODS)
    contracts.install_scipy(cx, 'pyerrors.obs')
    name = 'ens|r1'
    idl = list(range(1, n + 1))
    o, x, spec = _mk(cx, idl, name)
    rng = np.random.default_rng(seed)
    while True:
        t = rng.integers(0, n, size=(ns, n))
        proj = np.vstack([np.bincount(r, minlength=n) for r in t]) / n
        if np.linalg.matrix_rank(proj) == n:
            break
    b = o.export_bootstrap(samples=ns, random_numbers=t)
    o2 = pe.import_bootstrap(b, name, np.asfortranarray(t) if order == 'F' else t)       # the same table, possibly with another memory layout
    lib.compare(cx, o2, spec, 'boot-import')
    # too few samples / wrong shape are rejected
    for bad, why in ((t[:n - 1], 'fewer-samples-than-configs'), (t[:, :n - 1] if ns - 1 != n else t[:-2], 'shape')):
        try:
            pe.import_bootstrap(b[:len(bad) + 1] if why != 'shape' else b, name, bad)
        except ValueError:
            cx.ok('raises[%s]' % why)
        else:
            cx.fail('no-exception[%s]' % why)


HARNESSES = dict(jackknife=h_jackknife, jack_multi=h_jack_multi, boot_export=h_boot_export, boot_seed=h_boot_seed, boot_import=h_boot_import)


def jobs(tier, seed):
    J = []

    def add(h, **p):
        J.append(dict(harness=h, params=p))
    idls = [list(range(1, 6)), [2, 4, 6, 8, 10, 12], [1, 2, 4, 5, 7, 9, 10], list(range(3, 11)), [5, 10, 15, 20, 25, 30, 35, 40, 45],
            list(range(1, 11))]
    if tier == 'thorough':
        idls += [list(range(1, 13)), [1, 2, 3, 5, 8, 13, 21, 34, 55, 89, 144], list(range(10, 150, 10))]
    for idl in idls:
        add('jackknife', idl=idl)
    add('jack_multi')
    add('boot_export', idl=[1, 2, 3, 4, 5], ns=5, kind='sym1')
    add('boot_export', idl=[1, 3, 4, 6, 7, 9], ns=6, kind='sym1')
    for k, idl in enumerate(idls[:4]):
        add('boot_export', idl=idl, ns=6, kind=seed + 11 + k)
    if tier == 'thorough':
        add('boot_export', idl=[1, 2, 3, 4, 5], ns=5, kind='sym2')
    add('boot_export', idl=[1, 2, 3, 4, 5], ns=6, kind=seed + 5, order='F')       # tables that are not row-major in memory
    add('boot_export', idl=[1, 2, 3, 4, 5, 6], ns=4, kind='sym1', order='T')
    add('boot_seed', idl=[1, 2, 3, 4, 5], ns=4, name='ens|r1')
    add('boot_seed', idl=[2, 4, 6, 8, 10, 12], ns=3, name='A653|r003')
    for n, ns in ((5, 5), (5, 8), (6, 9)) + (((7, 12), (8, 16)) if tier == 'thorough' else ()):
        add('boot_import', n=n, ns=ns, seed=seed + n)
    return J


def apply_canary(name):
    from symx.mutate import mutate
    if name == 'jack-n':
        return mutate('pyerrors.obs', 'Obs.export_jackknife', '(n * mean - full_data) / (n - 1)', '(n * mean - full_data) / n')
    if name == 'prj':
        return mutate('pyerrors.obs', 'import_jackknife', '(length - 1) * np.identity(length)', 'length * np.identity(length)')
    if name == 'boot-norm':
        return mutate('pyerrors.obs', 'Obs.export_bootstrap', 'for o in random_numbers]) / length', 'for o in random_numbers]) / (length - 1)')
    raise KeyError(name)


def _cj(h, **p):
    return lambda tier, seed: [dict(harness=h, params=p)]


CANARIES = [
    dict(name='jack-n', what='leave-one-out normalised by n instead of n-1', jobs=_cj('jackknife', idl=[1, 2, 3, 4, 5]), quick=True),
    dict(name='prj', what='projection matrix of import_jackknife', jobs=_cj('jackknife', idl=[1, 2, 3, 4, 5])),
    dict(name='boot-norm', what='bootstrap mean normalisation', jobs=_cj('boot_export', idl=[1, 2, 3, 4, 5], ns=2, kind=3)),
]

META = dict(
    explanation='C13: export_jackknife / import_jackknife / export_bootstrap / import_bootstrap and gamma_method(S=0) run on symbolic samples; leave-one-out '
                'means, import-export identities, the jackknife variance identity and the bootstrap means are polynomial identities decided by z3. The bootstrap '
                'table itself is symbolic (bounded integers) in the export harness.',
    bounds='single-chain observables with 5..10 (thorough: ..14) configurations on contiguous / strided / irregular lists; bootstrap: symbolic resampling tables '
           '5x5 and 6x6 with one symbolic entry in [0,n) per row at rotating positions (thorough: two per row; three per row exceeds 60 s in z3), concrete seeded tables 6 x n; import with concrete full-column-rank tables (5x5, 8x5, 9x6; thorough 12x7, 16x8).',
    outside=['numpy Generator determinism and md5 (concrete by construction; the harness recomputes the documented seeding)', 'rank-deficient tables',
             'chains longer than the bound', 'floating-point rounding'],
    stubs=['numpy shim', 'scipy.linalg.lstsq -> normal equations A^T A X = A^T b', 'np.bincount on symbolic integers -> sum of indicator terms'],
    assumptions=['on the path |Gamma(0)| < 10*tiny the code reports a zero error by design (early exit); the variance identity is claimed on the other path'],
)
