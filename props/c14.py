"""C14 Correlator arithmetic acts timeslice-wise and propagates undefined slices."""
import itertools

import numpy as np

from symx import core, lib
from symx.core import SInt

PROPERTY = 'C14'
OPTS = dict(timeout=60000, maxpaths=600)
MODS = ('pyerrors.obs', 'pyerrors.covobs', 'pyerrors.correlators', 'pyerrors.linalg', 'pyerrors.misc')
CFG = [1, 2, 3, 4, 5]

EXPECTED_EXCEPTIONS = {}


def _quiet(cx):
    """consistency warnings (gamma_method + n-sigma tests inside symmetric / anti_symmetric / T_symmetry) are not modelled"""
    import pyerrors as pe
    if cx.mode != 'sym':
        return
    cx.patch(pe.Corr, 'gamma_method', lambda self, **kw: None)
    cx.patch(pe.Obs, 'gamma_method', lambda self, **kw: None)
    cx.patch(pe.Obs, 'is_zero_within_error', lambda self, sigma=1: True)
    import pyerrors.correlators as C
    shim = vars(C)['np']
    shim.__dict__['argmax'] = lambda a, *x, **k: 0


def mk_obs1(cx, tag, cplx=False):
    import pyerrors as pe
    arr = np.array([cx.real('%s_%d' % (tag, c)) for c in CFG], dtype=object if cx.mode == 'sym' else float)
    o = pe.Obs([arr], ['e|r1'], idl=[CFG])
    if cplx:
        arr2 = np.array([cx.real('%si_%d' % (tag, c)) for c in CFG], dtype=object if cx.mode == 'sym' else float)
        return pe.CObs(o, pe.Obs([arr2], ['e|r1'], idl=[CFG]))
    return o


def mk_corr(cx, prefix, T, N, pattern, cplx=False):
    import pyerrors as pe
    content = []
    for t in range(T):
        if not pattern[t]:
            content.append(None)
        elif N == 1:
            content.append(mk_obs1(cx, '%s%d' % (prefix, t), cplx))
        else:
            m = np.empty((N, N), dtype=object)
            for i in range(N):
                for j in range(N):
                    m[i, j] = mk_obs1(cx, '%s%d_%d%d' % (prefix, t, i, j), cplx)
            content.append(m)
    if N == 1:
        return pe.Corr(content)
    return pe.Corr(content)


def snapshot(c):
    return dict(T=c.T, N=c.N, ids=[id(x) for x in c.content], entry_ids=[None if x is None else [id(e) for e in np.asarray(x, dtype=object).ravel()] for x in c.content],
                prange=None if c.prange is None else list(c.prange), tag=c.tag)


def unchanged(cx, c, snap, label):
    cx.expect(c.T == snap['T'] and c.N == snap['N'] and [id(x) for x in c.content] == snap['ids'] and
              [None if x is None else [id(e) for e in np.asarray(x, dtype=object).ravel()] for x in c.content] == snap['entry_ids'] and
              (None if c.prange is None else list(c.prange)) == snap['prange'] and c.tag == snap['tag'], label + ':operand-not-mutated')


def entry(c, t):
    """content of timeslice t as an (N, N) or (1,) object array, or None"""
    x = c.content[t]
    return None if x is None else np.asarray(x, dtype=object)


BINOPS = {
    'add': lambda a, b: a + b, 'sub': lambda a, b: a - b, 'mul': lambda a, b: a * b, 'div': lambda a, b: a / b,
    'radd': lambda a, b: b + a, 'rsub': lambda a, b: b - a, 'rmul': lambda a, b: b * a, 'rdiv': lambda a, b: b / a,
}


def _lift(x, other):
    """a real observable meeting a Python complex number is the complex observable (x, 0)"""
    import pyerrors as pe
    if isinstance(other, complex) and isinstance(x, pe.Obs):
        return pe.CObs(x, 0.0)
    return x


def _apply_entrywise(f, ea, eb):
    ea = np.asarray(ea, dtype=object)
    if isinstance(eb, complex):
        f0 = f
        f = lambda u, v: f0(_lift(u, v), v)
    if isinstance(eb, np.ndarray) and eb.dtype == object:
        ea, eb = np.broadcast_arrays(ea, eb)
        out = np.empty(ea.shape, dtype=object)
        for idx in np.ndindex(ea.shape):
            out[idx] = f(ea[idx], eb[idx])
        return out
    out = np.empty(ea.shape, dtype=object)
    for idx in np.ndindex(ea.shape):
        out[idx] = f(ea[idx], eb)
    return out


def check_corr(cx, res, T, N, expect, label):
    import pyerrors as pe
    if not cx.expect(isinstance(res, pe.Corr), label + ':type', type(res).__name__):
        return
    cx.expect(res.T == T and res.N == N, label + ':T/N', 'T=%s N=%s' % (res.T, res.N))
    if res.T != T:
        return
    for t in range(T):
        r = entry(res, t)
        e = expect[t]
        if e is None or r is None:
            cx.expect(e is None and r is None, label + ':undefined-exactly-where-an-operand-is[%d]' % t, 'result %s, expected %s' % ('None' if r is None else 'defined', 'None' if e is None else 'defined'))
            continue
        lib.eq_obs(cx, r, np.asarray(e, dtype=object).reshape(r.shape) if np.asarray(e, dtype=object).size == r.size else e, '%s[%d]' % (label, t))


def h_arith(cx, T, N, pa, pb, partner, ops, cplx=False, Nb=None):
    import pyerrors as pe
    lib.sym_env(cx, *MODS)
    a = mk_corr(cx, 'a', T, N, pa, cplx)
    sa = snapshot(a)
    if partner == 'corr':
        b = mk_corr(cx, 'b', T, Nb or N, pb, cplx)
        sb = snapshot(b)
        pent = [entry(b, t) for t in range(T)]
    else:
        b = {'obs': lambda: mk_obs1(cx, 'y'), 'cobs': lambda: mk_obs1(cx, 'y', True), 'int': lambda: 3, 'float': lambda: 2.5,
             'complex': lambda: 2 + 3j, 'sym': lambda: cx.real('y') if cx.mode == 'conc' else 1.75,
             'ndarray': lambda: np.array([0.5 + t for t in range(T)])}[partner]()
        pent = [b[t] if partner == 'ndarray' else b for t in range(T)]
        sb = None
    Nres = max(N, Nb or N)
    for op in ops:
        f = BINOPS[op]
        nothing_defined = all(entry(a, t) is None or (partner == 'corr' and pent[t] is None) for t in range(T))
        try:
            res = f(a, b)
        except core.Realize:
            raise
        except Exception as e:
            # division by an observable / number with zero central value is rejected by design
            if op in ('div', 'rdiv') and 'zero' in str(e).lower():
                cx.ok(op + ':rejects-zero-divisor')
                continue
            if nothing_defined:
                cx.ok(op + ':raises-when-no-timeslice-is-defined')
                continue
            cx.fail('%s[%s]:raises' % (op, partner), '%s: %s' % (type(e).__name__, e))
            continue
        expect = []
        for t in range(T):
            ea = entry(a, t)
            if ea is None or (partner == 'corr' and pent[t] is None):
                expect.append(None)
            else:
                expect.append(_apply_entrywise(f, ea, pent[t]))
        check_corr(cx, res, T, Nres, expect, '%s[%s]' % (op, partner))
        unchanged(cx, a, sa, op)
        if sb is not None:
            unchanged(cx, b, sb, op + ':partner')


UNOPS = ['neg', 'abs', 'pow2', 'powm1', 'pow_half', 'sqrt', 'log', 'exp', 'sin', 'cos', 'tan', 'sinh', 'cosh', 'tanh', 'arcsin', 'arccos',
         'arctan', 'arcsinh', 'arccosh', 'arctanh']


def h_func(cx, T, N, pa, funcs):
    import pyerrors as pe
    lib.sym_env(cx, *MODS)
    a = mk_corr(cx, 'a', T, N, pa)
    sa = snapshot(a)
    y = mk_obs1(cx, 'y')
    table = {'neg': lambda x: -x, 'abs': lambda x: abs(x), 'pow2': lambda x: x ** 2, 'powm1': lambda x: x ** -1, 'pow_half': lambda x: x ** 0.5,
             'pow_obs': lambda x: x ** y}
    for fn in funcs:
        f = table.get(fn) or (lambda x, fn=fn: getattr(np, fn)(x))
        res = f(a)
        expect = [None if entry(a, t) is None else _apply_entrywise(lambda u, _: f(u), entry(a, t), None) for t in range(T)]
        check_corr(cx, res, T, N, expect, fn)
        unchanged(cx, a, sa, fn)


def h_func_nan(cx, T, N, pa, funcs):
    """domain-restricted functions with floating-point semantics (job option nan_domain): outside its domain the function is not a number, and the
    timeslice must then be undefined - the symbolic values decide per entry, one path per in/out pattern"""
    import pyerrors as pe
    lib.sym_env(cx, *MODS)
    a = mk_corr(cx, 'a', T, N, pa)
    sa = snapshot(a)
    for fn in funcs:
        with np.errstate(all='ignore'):
            f = {'pow_half': lambda x: x ** 0.5}.get(fn) or (lambda x, fn=fn: getattr(np, fn)(x))
            try:
                res = f(a)
            except ValueError as e:
                res = e
            expect = []
            for t in range(T):
                if entry(a, t) is None:
                    expect.append(None)
                    continue
                e = _apply_entrywise(lambda u, _: f(u), entry(a, t), None)
                isnan = [isinstance(x.value, (float, np.floating)) and x.value != x.value for x in e.ravel()]
                expect.append(None if any(isnan) else e)
        if isinstance(res, ValueError):
            cx.expect(all(e is None for e in expect), fn + ':raises only when no timeslice stays defined', str(res))
        else:
            check_corr(cx, res, T, N, expect, fn)
        unchanged(cx, a, sa, fn)


def h_roll(cx, T, pa, lo, hi):
    lib.sym_env(cx, *MODS)
    a = mk_corr(cx, 'a', T, 1, pa)
    sa = snapshot(a)
    dt = cx.integer('dt', lo, hi)
    res = a.roll(dt)
    d = int(dt)
    expect = [None] * T
    for t in range(T):
        expect[(t + d) % T] = entry(a, t)
    check_corr(cx, res, T, 1, expect, 'roll')
    unchanged(cx, a, sa, 'roll')
    r2 = a.reverse()
    check_corr(cx, r2, T, 1, [entry(a, T - 1 - t) for t in range(T)], 'reverse')
    unchanged(cx, a, sa, 'reverse')


def h_thin(cx, T, pa):
    lib.sym_env(cx, *MODS)
    a = mk_corr(cx, 'a', T, 1, pa)
    sa = snapshot(a)
    sp = cx.integer('spacing', 1, T + 1)
    off = cx.integer('offset', 0, T)
    try:
        res = a.thin(sp, off)
    except Exception as e:
        if isinstance(e, core.Realize):
            raise
        # an exception is acceptable only when no timeslice would survive
        for t in range(T):
            if entry(a, t) is not None:
                cx.prove(core.Not((off + t) % sp == 0), 'thin:raises-only-if-nothing-survives[%d]' % t)
        return
    cx.expect(res.T == T, 'thin:T')
    for t in range(T):
        keep = (off + t) % sp == 0
        r = entry(res, t)
        if r is None:
            if entry(a, t) is not None:
                cx.prove(core.Not(keep), 'thin:dropped-only-off-grid[%d]' % t)
        else:
            cx.prove(keep, 'thin:kept-only-on-grid[%d]' % t)
            lib.eq_obs(cx, r, entry(a, t), 'thin[%d]' % t)
    unchanged(cx, a, sa, 'thin')


def h_sym(cx, T, pa, pb):
    import pyerrors as pe
    lib.sym_env(cx, *MODS)
    _quiet(cx)
    a = mk_corr(cx, 'a', T, 1, pa)
    sa = snapshot(a)
    half = lambda f: (lambda u, v: f(u, v))
    for name, sign in (('symmetric', 1), ('anti_symmetric', -1)):
        try:
            res = getattr(a, name)()
        except ValueError:
            exp_all_none = all((t == 0 and entry(a, 0) is None) or (t > 0 and (entry(a, t) is None or entry(a, T - t) is None)) for t in range(T))
            cx.expect(T % 2 == 1 or exp_all_none, name + ':raises-only-if-odd-T-or-nothing-defined')
            continue
        expect = [entry(a, 0)]
        for t in range(1, T):
            if entry(a, t) is None or entry(a, T - t) is None:
                expect.append(None)
            else:
                expect.append(_apply_entrywise(lambda u, v: 0.5 * (u + sign * v) if sign == 1 else 0.5 * (u - v), entry(a, t), entry(a, T - t)))
        check_corr(cx, res, T, 1, expect, name)
        unchanged(cx, a, sa, name)
    b = mk_corr(cx, 'b', T, 1, pb)
    sb = snapshot(b)
    for parity in (1, -1):
        res = a.T_symmetry(b, parity)
        expect = []
        for t in range(T):
            if entry(a, t) is None or entry(b, T - 1 - t) is None:
                expect.append(None)
            else:
                expect.append(_apply_entrywise(lambda u, v: (u + parity * v) / 2, entry(a, t), entry(b, T - 1 - t)))
        check_corr(cx, res, T, 1, expect, 'T_symmetry[%d]' % parity)
        unchanged(cx, a, sa, 'T_symmetry')
        unchanged(cx, b, sb, 'T_symmetry:partner')


def h_matrix(cx, T, N, pa):
    import pyerrors as pe
    lib.sym_env(cx, *MODS)
    _quiet(cx)
    a = mk_corr(cx, 'a', T, N, pa)
    sa = snapshot(a)
    for i in range(N):
        for j in range(N):
            res = a.item(i, j)
            check_corr(cx, res, T, 1, [None if entry(a, t) is None else np.array([entry(a, t)[i, j]], dtype=object) for t in range(T)], 'item[%d,%d]' % (i, j))
    res = a.trace()
    check_corr(cx, res, T, 1, [None if entry(a, t) is None else np.array([sum(entry(a, t)[i, i] for i in range(N))], dtype=object) for t in range(T)], 'trace')
    vl = np.array([cx.real('vl%d' % i) if cx.mode == 'conc' else 0.5 + i for i in range(N)], dtype=float)
    vr = np.array([1.25 - 0.5 * i for i in range(N)], dtype=float)
    res = a.projected(vl, vr)
    check_corr(cx, res, T, 1, [None if entry(a, t) is None else np.array([sum(vl[i] * entry(a, t)[i, j] * vr[j] for i in range(N) for j in range(N))], dtype=object) for t in range(T)], 'projected')
    # per-timeslice lists of vectors on either side, a single vector on the other; the order of the two sides matters for non-symmetric matrices
    def vec(t, side):
        return np.array([(1.0 + 0.25 * t + 0.5 * i) * (1 if side == 'l' else -1) ** i for i in range(N)], dtype=float)

    def want(fl, fr):
        return [None if entry(a, t) is None else np.array([sum(fl(t)[i] * entry(a, t)[i, j] * fr(t)[j] for i in range(N) for j in range(N))], dtype=object) for t in range(T)]
    Ll = [vec(t, 'l') for t in range(T)]
    Lr = [vec(t, 'r') for t in range(T)]
    keep = [[v.copy() for v in Ll], [v.copy() for v in Lr], vl.copy(), vr.copy()]
    check_corr(cx, a.projected(Ll, Lr), T, 1, want(lambda t: Ll[t], lambda t: Lr[t]), 'projected(list, list)')
    check_corr(cx, a.projected(vl, Lr), T, 1, want(lambda t: vl, lambda t: Lr[t]), 'projected(array, list)')
    check_corr(cx, a.projected(Ll, vr), T, 1, want(lambda t: Ll[t], lambda t: vr), 'projected(list, array)')
    check_corr(cx, a.projected(Ll), T, 1, want(lambda t: Ll[t], lambda t: Ll[t]), 'projected(list)')
    nrm = lambda v: v / np.sqrt(v @ v)
    check_corr(cx, a.projected(vl, vr, normalize=True), T, 1, want(lambda t: nrm(vl), lambda t: nrm(vr)), 'projected(array, array, normalize)')
    check_corr(cx, a.projected(Ll, Lr, normalize=True), T, 1, want(lambda t: nrm(keep[0][t]), lambda t: nrm(keep[1][t])), 'projected(list, list, normalize)')
    cx.expect(all(np.array_equal(x, y) for x, y in zip(Ll, keep[0])) and all(np.array_equal(x, y) for x, y in zip(Lr, keep[1])) and np.array_equal(vl, keep[2]) and np.array_equal(vr, keep[3]),
              'projected: the vector arguments (arrays and lists) are not modified')
    for bad in ([vl] * (T + 1), [vl] * (T - 1)):
        try:
            a.projected(bad, vr)
        except ValueError:
            cx.ok('projected: list of the wrong length rejected')
        else:
            cx.fail('projected: list of the wrong length accepted')
    res = a.projected()
    check_corr(cx, res, T, 1, [None if entry(a, t) is None else np.array([1.0 * entry(a, t)[0, 0] * 1.0 + sum(0.0 * entry(a, t)[i, j] for i in range(N) for j in range(N) if (i, j) != (0, 0))], dtype=object) for t in range(T)], 'projected-default')
    # is_matrix_symmetric hashes the entries, which symbolic data cannot pass: it is exercised on concrete correlators (every timeslice must be looked at)
    def cmat(sym_pattern):
        content = []
        for t, symm in enumerate(sym_pattern):
            if symm is None:
                content.append(None)
                continue
            m = np.empty((2, 2), dtype=object)
            for i in range(2):
                for j in range(2):
                    key = (min(i, j), max(i, j)) if symm else (i, j)
                    m[i, j] = pe.Obs([np.array([1.0, 1.5, 0.5, 2.0, 1.0 + 0.25 * (3 * key[0] + key[1])]) + t], ['c|r1'])
            content.append(m)
        return pe.Corr(content)
    for pat, want in (((True, True, True), True), ((True, False, True), False), ((True, True, False), False), ((None, True, False), False), ((None, True, None), True), ((False, True, True), False)):
        cx.expect(cmat(pat).is_matrix_symmetric() is want, 'is_matrix_symmetric looks at every defined timeslice %s' % (pat,))
        ms = cmat(pat).matrix_symmetric()
        cx.expect(all(ms.content[t] is None or abs(ms.content[t][0, 1].value - ms.content[t][1, 0].value) < 1e-14 for t in range(3)), 'matrix_symmetric() is symmetric on every timeslice %s' % (pat,))
    if cx.mode == 'sym':
        cx.patch(pe.Corr, 'is_matrix_symmetric', lambda self: False)     # hashing of symbolic data is not modelled: take the general branch
    res = a.matrix_symmetric()
    check_corr(cx, res, T, N, [None if entry(a, t) is None else _apply_entrywise(lambda u, v: 0.5 * (v + u), entry(a, t), entry(a, t).T) for t in range(T)], 'matrix_symmetric')
    M = np.array([[1.0, 2.0], [0.5, -1.0]]) if N == 2 else np.eye(N)
    res = a @ M
    check_corr(cx, res, T, N, [None if entry(a, t) is None else entry(a, t) @ M for t in range(T)], 'matmul')
    res = M @ a
    check_corr(cx, res, T, N, [None if entry(a, t) is None else M @ entry(a, t) for t in range(T)], 'rmatmul')
    unchanged(cx, a, sa, 'matrix-ops')


def h_hankel(cx, T, pa, Nh, periodic):
    lib.sym_env(cx, *MODS)
    a = mk_corr(cx, 'a', T, 1, pa)
    sa = snapshot(a)
    expect = []
    for t in range(T):
        if not periodic and t + 2 * (Nh - 1) >= T:
            expect.append(None)
            continue
        m = np.empty((Nh, Nh), dtype=object)
        undefined = False
        for i in range(Nh):
            for j in range(Nh):
                e = entry(a, (t + i + j) % T)
                if e is None:
                    undefined = True
                else:
                    m[i, j] = e[0]
        expect.append(None if undefined else m)
    try:
        res = a.Hankel(Nh, periodic=periodic)
    except core.Realize:
        raise
    except Exception as e:
        cx.expect(all(x is None for x in expect), 'Hankel:raises-only-if-nothing-defined', '%s: %s' % (type(e).__name__, e))
        return
    check_corr(cx, res, T, Nh, expect, 'Hankel')
    unchanged(cx, a, sa, 'Hankel')


def h_repr(cx, T, pa, kind):
    """printing must not mutate its argument"""
    lib.sym_env(cx, *MODS)
    a = mk_corr(cx, 'a', T, 1, pa)
    sa = snapshot(a)
    if kind == 'none':
        s = a.__repr__()
        cx.expect(isinstance(s, str) and s.startswith('Corr T=%d N=1' % T), 'repr:header')
    else:
        lo = cx.integer('p0', 0, T - 1)
        hi = cx.integer('p1', 0, T)
        pr = [lo, hi]
        s = a.__repr__(pr)
        cx.expect(isinstance(s, str), 'repr:type')
        cx.prove_eq(pr[0], lo, 'print_range[0]-not-mutated')
        cx.prove_eq(pr[1], hi, 'print_range[1]-not-mutated')
        if cx.mode == 'conc':
            lines = s.split('------------------\n')[1].splitlines() if '------------------\n' in s else []
            exp = list(range(int(lo), (int(hi) + 1) if int(hi) else T))[:max(0, T - int(lo))]
            cx.expect([int(l.split('\t')[0]) for l in lines] == [x for x in exp if x < T], 'repr:printed-slices', '%s vs %s' % (lines, exp))
    unchanged(cx, a, sa, 'repr')


HARNESSES = dict(arith=h_arith, func=h_func, func_nan=h_func_nan, roll=h_roll, thin=h_thin, sym=h_sym, matrix=h_matrix, hankel=h_hankel, repr=h_repr)


def _patterns(T, tier, seed, k=4):
    import random
    allp = [p for p in itertools.product([True, False], repeat=T) if any(p)]
    if tier == 'thorough' or len(allp) <= k:
        return allp
    rnd = random.Random(seed + T)
    core_ = [tuple([True] * T), tuple([False] + [True] * (T - 1)), tuple([True] * (T - 1) + [False]), tuple(t % 2 == 0 for t in range(T))]
    return list(dict.fromkeys(core_ + rnd.sample(allp, k)))


def jobs(tier, seed):
    J = []

    def add(h, **p):
        J.append(dict(harness=h, params=p))
    T = 4
    pats = _patterns(T, tier, seed)
    allops = sorted(BINOPS)
    for i, pa in enumerate(pats):
        pb = pats[(i + 2) % len(pats)]
        add('arith', T=T, N=1, pa=pa, pb=pb, partner='corr', ops=['add', 'sub', 'mul', 'div'])
        add('arith', T=T, N=1, pa=pa, pb=pb, partner='obs', ops=allops)
        add('arith', T=T, N=1, pa=pa, pb=pb, partner='float', ops=allops)
    pa = pats[1]
    for partner in ('int', 'cobs', 'complex'):
        ops = allops if partner in ('int', 'cobs') else ['add', 'sub', 'mul', 'radd', 'rsub', 'rmul']
        add('arith', T=T, N=1, pa=pa, pb=pa, partner=partner, ops=ops)
    # ndarray partners are not part of the statement; kept for fully defined correlators only
    add('arith', T=T, N=1, pa=pats[0], pb=pats[0], partner='ndarray', ops=['add', 'mul', 'div'])
    # matrix-valued and mixed N
    for pa in _patterns(3, tier, seed, 2)[:4]:
        add('arith', T=3, N=2, pa=pa, pb=tuple(reversed(pa)), partner='corr', ops=['add', 'sub', 'mul', 'div'])
        add('arith', T=3, N=2, pa=pa, pb=pa, partner='obs', ops=['add', 'mul', 'div', 'rsub'])
    add('arith', T=3, N=2, pa=(True, False, True), pb=(True, True, True), partner='corr', ops=['mul', 'div'], Nb=1)
    # complex content: supported subset
    add('arith', T=3, N=1, pa=(True, False, True), pb=(True, True, False), partner='corr', ops=['add', 'sub', 'mul'], cplx=True)
    add('arith', T=3, N=1, pa=(True, True, False), pb=(True, True, False), partner='obs', ops=['add', 'sub', 'mul', 'div'], cplx=True)
    add('arith', T=3, N=1, pa=(False, True, True), pb=(True, True, False), partner='complex', ops=['add', 'sub', 'mul'], cplx=True)
    add('arith', T=3, N=1, pa=(False, True, True), pb=(True, True, False), partner='float', ops=['add', 'sub', 'mul', 'div'], cplx=True)
    for pa in pats[:3]:
        add('func', T=T, N=1, pa=pa, funcs=UNOPS[:10] + ['pow_obs'])
        add('func', T=T, N=1, pa=pa, funcs=UNOPS[10:])
    add('func', T=3, N=2, pa=(True, False, True), funcs=['neg', 'abs', 'pow2', 'exp', 'sin', 'log'])
    J.append(dict(harness='func_nan', params=dict(T=2, N=1, pa=(True, True), funcs=['sqrt', 'arccosh', 'arctanh', 'pow_half']), opts=dict(nan_domain=True)))
    J.append(dict(harness='func_nan', params=dict(T=2, N=2, pa=(True, False), funcs=['arcsin']), opts=dict(nan_domain=True)))
    J.append(dict(harness='func_nan', params=dict(T=2, N=2, pa=(False, True), funcs=['log']), opts=dict(nan_domain=True)))
    for Tn in (4, 5):
        for pa in _patterns(Tn, tier, seed, 2)[:5]:
            add('roll', T=Tn, pa=pa, lo=-Tn - 1, hi=Tn + 1)
            add('thin', T=Tn, pa=pa)
    for pa in _patterns(4, tier, seed, 3):
        add('sym', T=4, pa=pa, pb=tuple(reversed(pa)))
    add('sym', T=5, pa=(True, True, False, True, True), pb=(True,) * 5)
    for pa in _patterns(3, tier, seed, 2)[:4]:
        add('matrix', T=3, N=2, pa=pa)
    for pa in _patterns(5, tier, seed, 2)[:5]:
        for Nh in (1, 2, 3):
            for per in (False, True):
                add('hankel', T=5, pa=pa, Nh=Nh, periodic=per)
    # Hankel matrices that wrap around the lattice more than once (2 (N - 1) > T) and degenerate sizes
    for T_, Nh in ((3, 3), (2, 3), (2, 2), (3, 4), (4, 4)):
        for per in (False, True):
            add('hankel', T=T_, pa=(True,) * T_, Nh=Nh, periodic=per)
    add('hankel', T=3, pa=(True, False, True), Nh=3, periodic=True)
    add('repr', T=4, pa=(True, False, True, True), kind='none')
    add('repr', T=4, pa=(True, False, True, True), kind='sym')
    add('repr', T=3, pa=(True, True, True), kind='sym')
    return J


def apply_canary(name):
    from symx.mutate import mutate
    if name == 'none-test-wrong-operand':
        return mutate('pyerrors.correlators', 'Corr.__add__', 'if _check_for_none(self, self.content[t]) or _check_for_none(y, y.content[t]):', 'if _check_for_none(self, self.content[t]) or _check_for_none(self, self.content[t]):')
    if name == 'rsub-sign':
        return mutate('pyerrors.correlators', 'Corr.__rsub__', 'return -self + y', 'return self - y')
    if name == 'thin-offset':
        return mutate('pyerrors.correlators', 'Corr.thin', '(offset + t) % spacing != 0', '(offset - t) % spacing != 0')
    raise KeyError(name)


def _cj(h, **p):
    return lambda tier, seed: [dict(harness=h, params=p)]


CANARIES = [
    dict(name='rsub-sign', what='reflected subtraction', quick=True, jobs=_cj('arith', T=3, N=1, pa=(True, True, False), pb=(True, True, True), partner='float', ops=['rsub'])),
    dict(name='none-test-wrong-operand', what='None test on the wrong operand', jobs=_cj('arith', T=3, N=1, pa=(True, True, True), pb=(True, False, True), partner='corr', ops=['add'])),
    dict(name='thin-offset', what='thin offset sign', jobs=_cj('thin', T=4, pa=(True, True, True, True))),
]

META = dict(
    explanation='C14: every Corr operator / reflected operator / elementary function and the index transformations (roll, reverse, thin, symmetric, anti_symmetric, '
                'T_symmetry, item, projected, trace, matrix_symmetric, matmul, Hankel, __repr__) run on correlators whose entries carry distinct symbolic samples '
                '(a mis-assigned slice can never cancel); every result entry is compared with the same operation applied to the operand entries of that timeslice, '
                'T / N / None pattern are checked, scalar arguments (dt, spacing, offset, print_range) are symbolic integers, and operands and arguments are '
                'compared before / after the call (non-mutation).',
    bounds='T = 3..5, N in {1,2} (Hankel size 1..3), None patterns: quick a core + seeded selection, thorough all 2^T - 1; partners Corr / Obs / CObs / int / float / '
           'complex / ndarray in both operand orders where supported; complex content: +, -, * and division by real quantities; 5 configurations per entry.',
    outside=['"result is not a number -> undefined" (no NaN over the reals)', 'consistency warnings of symmetric / anti_symmetric / T_symmetry (their internal gamma_method and '
             'n-sigma tests are stubbed)', 'is_matrix_symmetric (hash based) is forced to the general branch', 'T > 5'],
    stubs=['numpy shim', 'Corr/Obs.gamma_method and is_zero_within_error -> no-op inside the symmetry helpers (warnings only)'],
    assumptions=[],
)
