"""C01 Linear error propagation is exact and aligned by configuration number."""
import numpy as np

from symx import core, lib, layouts, dual
from symx.core import fn

PROPERTY = 'C01'

OPTS = dict(timeout=60000, maxpaths=200)

MODS = ('pyerrors.obs', 'pyerrors.covobs', 'pyerrors.linalg')


# ----------------------------------------------------------------------------- operator tables
# name -> (real operation on observables, the same function on plain numbers [list x])
BIN = {
    'add': (lambda a, b: a + b, lambda x: x[0] + x[1]),
    'sub': (lambda a, b: a - b, lambda x: x[0] - x[1]),
    'mul': (lambda a, b: a * b, lambda x: x[0] * x[1]),
    'div': (lambda a, b: a / b, lambda x: x[0] / x[1]),
    'pow': (lambda a, b: a ** b, lambda x: x[0] ** x[1]),
    'radd': (lambda a, b: a.__radd__(b), lambda x: x[1] + x[0]),
    'rsub': (lambda a, b: a.__rsub__(b), lambda x: x[1] - x[0]),
    'rmul': (lambda a, b: a.__rmul__(b), lambda x: x[1] * x[0]),
    'rdiv': (lambda a, b: a.__rtruediv__(b), lambda x: x[1] / x[0]),
}

FUNCS = ['sqrt', 'log', 'exp', 'sin', 'cos', 'tan', 'arcsin', 'arccos', 'arctan',
         'sinh', 'cosh', 'tanh', 'arcsinh', 'arccosh', 'arctanh']

UN = {'neg': (lambda a: -a, lambda x: -x[0]),
      'pos': (lambda a: +a, lambda x: x[0]),
      'abs': (lambda a: abs(a), lambda x: abs(x[0]))}
for _f in FUNCS:
    UN[_f] = ((lambda f: (lambda a: getattr(np, f)(a)))(_f), (lambda f: (lambda x: fn(f, x[0])))(_f))


def SCALAR(y):
    """operations of an observable with the plain number y (int, float or symbolic real)"""
    return {
        'add_c': (lambda a: a + y, lambda x: x[0] + y),
        'radd_c': (lambda a: y + a, lambda x: y + x[0]),
        'sub_c': (lambda a: a - y, lambda x: x[0] - y),
        'rsub_c': (lambda a: y - a, lambda x: y - x[0]),
        'mul_c': (lambda a: a * y, lambda x: x[0] * y),
        'rmul_c': (lambda a: y * a, lambda x: y * x[0]),
        'div_c': (lambda a: a / y, lambda x: x[0] / y),
        'rdiv_c': (lambda a: y / a, lambda x: y / x[0]),
    }


POWS = {
    'pow_2': (lambda a: a ** 2, lambda x: x[0] * x[0]),
    'pow_3': (lambda a: a ** 3, lambda x: x[0] * x[0] * x[0]),
    'pow_m1': (lambda a: a ** -1, lambda x: 1 / x[0]),
    'pow_m2': (lambda a: a ** -2, lambda x: 1 / (x[0] * x[0])),
    'pow_half': (lambda a: a ** 0.5, lambda x: fn('sqrt', x[0])),
    'pow_1p5': (lambda a: a ** 1.5, lambda x: x[0] ** 1.5),
    'rpow_2': (lambda a: 2 ** a, lambda x: 2 ** x[0]),
    'rpow_f': (lambda a: 1.5 ** a, lambda x: 1.5 ** x[0]),
}


# ----------------------------------------------------------------------------- harnesses

def h_binop(cx, la, lb, ops):
    lib.sym_env(cx, *MODS)
    a, sa = lib.mk_obs(cx, 'a', la)
    b, sb = lib.mk_obs(cx, 'b', lb)
    for op in ops:
        rf, nf = BIN[op]
        r = rf(a, b)
        s = lib.derived_spec(nf, [sa, sb])
        lib.compare(cx, r, s, op)
        zero_sum(cx, r, op)


def _sym_cfgs(cx, tag, smax, stepmax, nlo, nhi, hole, step=None):
    """configuration list of one chain from solver-enumerated parameters: first configuration, spacing, length, optionally one interior hole"""
    s0 = cx.integer(tag + '_start', 1, smax)
    st = cx.integer(tag + '_step', step or 1, step or stepmax)
    n = cx.integer(tag + '_len', nlo, nhi)
    if cx.mode == 'sym':
        s0, st, n = s0.concretize(1, smax), st.concretize(step or 1, step or stepmax), n.concretize(nlo, nhi)
    cf = [s0 + st * k for k in range(n + (1 if hole else 0))]
    if hole:
        del cf[2]
    return cf


def h_binop_layouts(cx, ops, smax, stepmax, nlo, nhi, hole_a=False, hole_b=False, second=None, step_a=None, step_b=None):
    """binop with the layout parameters themselves symbolic integers (the solver enumerates the box; the data stay symbolic on every path):
    all pairs of ranges (optionally with an interior hole) with first configuration 1..smax, spacing 1..stepmax, nlo..nhi configurations"""
    la = {'e|r1': _sym_cfgs(cx, 'A', smax, stepmax, nlo, nhi, hole_a, step_a)}
    lb = {'e|r1': _sym_cfgs(cx, 'B', smax, stepmax, nlo, nhi, hole_b, step_b)}
    if second:
        la['e|r2'] = list(second)
    h_binop(cx, la, lb, ops)


def zero_sum(cx, r, label):
    """lemma used by C11: the fluctuations of every replica sum to zero"""
    for n in r.deltas:
        tot = 0
        for d in r.deltas[n]:
            tot = tot + d
        cx.prove_eq(tot, 0, label + ':zero-sum[%s]' % n)


def h_unop(cx, la, ops):
    lib.sym_env(cx, *MODS)
    a, sa = lib.mk_obs(cx, 'a', la)
    for op in ops:
        rf, nf = UN[op]
        r = rf(a)
        s = lib.derived_spec(nf, [sa])
        lib.compare(cx, r, s, op)


def h_scalar(cx, la, kind, ops):
    lib.sym_env(cx, *MODS)
    a, sa = lib.mk_obs(cx, 'a', la)
    if kind == 'sym':
        y = cx.real('y')
        table = SCALAR(y)
    elif kind == 'int':
        table = SCALAR(3)
    elif kind == 'float':
        table = SCALAR(2.5)
    elif kind == 'npfloat':
        table = SCALAR(np.float64(0.75))
    else:
        table = POWS
    for op in ops:
        rf, nf = table[op]
        r = rf(a)
        s = lib.derived_spec(nf, [sa])
        lib.compare(cx, r, s, '%s[%s]' % (op, kind))


# expression trees over three operands a, b, c (depth 2)
TREES = {
    'add_mul': (lambda a, b, c: (a + b) * c, lambda x: (x[0] + x[1]) * x[2], [('add', 0, 1), ('mul', -1, 2)]),
    'mul_div': (lambda a, b, c: (a * b) / c, lambda x: (x[0] * x[1]) / x[2], [('mul', 0, 1), ('div', -1, 2)]),
    'sub_sin': (lambda a, b, c: np.sin(a - b) + c, lambda x: fn('sin', x[0] - x[1]) + x[2], None),
    'div_sub': (lambda a, b, c: a / (b - c), lambda x: x[0] / (x[1] - x[2]), None),
    'exp_mul': (lambda a, b, c: np.exp(a) * b - c, lambda x: fn('exp', x[0]) * x[1] - x[2], None),
    'sq_sum': (lambda a, b, c: a * a + b * c, lambda x: x[0] * x[0] + x[1] * x[2], None),
    'assoc_l': (lambda a, b, c: (a + b) + c, lambda x: x[0] + x[1] + x[2], None),
    'assoc_r': (lambda a, b, c: a + (b + c), lambda x: x[0] + x[1] + x[2], None),
}


def _mk(cx, prefix, desc):
    if isinstance(desc, dict):
        return lib.mk_obs(cx, prefix, desc)
    kind, name, dim, pos = desc[:4]
    return lib.mk_covobs(cx, prefix, name, dim, pos, mean=desc[4] if len(desc) > 4 else None)


class _Node:
    """evaluates an expression on real observables and, node by node, on specifications"""
    def __init__(self, o, s):
        self.o = o
        self.s = s

    def _bin(self, other, rf, nf):
        if isinstance(other, _Node):
            return _Node(rf(self.o, other.o), lib.derived_spec(nf, [self.s, other.s]))
        return _Node(rf(self.o, other), lib.derived_spec(lambda x: nf([x[0], other]), [self.s]))

    def __add__(self, o):
        return self._bin(o, lambda a, b: a + b, lambda x: x[0] + x[1])

    def __sub__(self, o):
        return self._bin(o, lambda a, b: a - b, lambda x: x[0] - x[1])

    def __mul__(self, o):
        return self._bin(o, lambda a, b: a * b, lambda x: x[0] * x[1])

    def __truediv__(self, o):
        return self._bin(o, lambda a, b: a / b, lambda x: x[0] / x[1])

    def sin(self):
        return _Node(np.sin(self.o), lib.derived_spec(lambda x: fn('sin', x[0]), [self.s]))

    def exp(self):
        return _Node(np.exp(self.o), lib.derived_spec(lambda x: fn('exp', x[0]), [self.s]))


def h_tree(cx, la, lb, lc, trees, oneshot):
    """node-by-node composition always; the one-shot propagation of the whole expression when the operands
    share their replica sets or their per-replica configuration sets (`oneshot`)."""
    lib.sym_env(cx, *MODS)
    a, sa = _mk(cx, 'a', la)
    b, sb = _mk(cx, 'b', lb)
    c, sc = _mk(cx, 'c', lc)
    for t in trees:
        rf, nf, _ = TREES[t]
        node = rf(_Node(a, sa), _Node(b, sb), _Node(c, sc))
        lib.compare(cx, node.o, node.s, t + ':composed')
        if oneshot:
            s1 = lib.derived_spec(nf, [sa, sb, sc])
            lib.compare(cx, node.o, s1, t + ':oneshot', wellformed=False)


def h_cobs(cx, la, lb, ops):
    """complex observables: z1 = a + i b, z2 = c + i d (c, d on layout lb), numbers in either position"""
    import pyerrors as pe
    lib.sym_env(cx, *MODS)
    a, sa = lib.mk_obs(cx, 'a', la)
    b, sb = lib.mk_obs(cx, 'b', la)
    c, sc = lib.mk_obs(cx, 'c', lb)
    d, sd = lib.mk_obs(cx, 'd', lb)
    z1 = pe.CObs(a, b)
    z2 = pe.CObs(c, d)
    S = [sa, sb, sc, sd]
    w = 2 + 3j

    def cmp(z, fre, fim, ops_, label, im_ops=None):
        cx.expect(isinstance(z, pe.CObs), label + ':type', type(z).__name__)
        if not isinstance(z, pe.CObs):
            return
        lib.compare(cx, z.real, lib.derived_spec(fre, ops_), label + ':re')
        if im_ops == 'number':
            # a complex observable may carry a plain number as a part (CObs(obs) has imag 0.0)
            cx.expect(not isinstance(z.imag, pe.Obs), label + ':im-number', type(z.imag).__name__)
            cx.prove_eq(z.imag, fim([]), label + ':im')
        else:
            lib.compare(cx, z.imag, lib.derived_spec(fim, im_ops or ops_), label + ':im')
    for op in ops:
        if op == 'add':
            cmp(z1 + z2, lambda x: x[0] + x[2], lambda x: x[1] + x[3], S, op)
        elif op == 'sub':
            cmp(z1 - z2, lambda x: x[0] - x[2], lambda x: x[1] - x[3], S, op)
        elif op == 'mul':
            cmp(z1 * z2, lambda x: x[0] * x[2] - x[1] * x[3], lambda x: x[0] * x[3] + x[1] * x[2], S, op)
        elif op == 'div':
            cmp(z1 / z2, lambda x: (x[0] * x[2] + x[1] * x[3]) / (x[2] * x[2] + x[3] * x[3]),
                lambda x: (x[1] * x[2] - x[0] * x[3]) / (x[2] * x[2] + x[3] * x[3]), S, op)
        elif op == 'mul_complex':
            cmp(z1 * w, lambda x: 2 * x[0] - 3 * x[1], lambda x: 3 * x[0] + 2 * x[1], S[:2], op)
            cmp(w * z1, lambda x: 2 * x[0] - 3 * x[1], lambda x: 3 * x[0] + 2 * x[1], S[:2], 'r' + op)
        elif op == 'add_complex':
            cmp(z1 + w, lambda x: x[0] + 2, lambda x: x[1] + 3, S[:2], op)
            cmp(w + z1, lambda x: x[0] + 2, lambda x: x[1] + 3, S[:2], 'r' + op)
        elif op == 'sub_complex':
            cmp(z1 - w, lambda x: x[0] - 2, lambda x: x[1] - 3, S[:2], op)
            cmp(w - z1, lambda x: 2 - x[0], lambda x: 3 - x[1], S[:2], 'r' + op)
        elif op == 'div_complex':
            cmp(z1 / w, lambda x: (2 * x[0] + 3 * x[1]) / 13, lambda x: (2 * x[1] - 3 * x[0]) / 13, S[:2], op)
            cmp(w / z1, lambda x: (2 * x[0] + 3 * x[1]) / (x[0] * x[0] + x[1] * x[1]),
                lambda x: (3 * x[0] - 2 * x[1]) / (x[0] * x[0] + x[1] * x[1]), S[:2], 'r' + op)
        elif op == 'obs_mix':
            cmp(z1 * c, lambda x: x[0] * x[2], lambda x: x[1] * x[2], [sa, sb, sc], 'mul_obs')
            cmp(c * z1, lambda x: x[0] * x[2], lambda x: x[1] * x[2], [sa, sb, sc], 'rmul_obs')
            cmp(z1 + c, lambda x: x[0] + x[2], lambda x: x[1], [sa, sb, sc], 'add_obs', im_ops=[sa, sb])
            cmp(z1 / c, lambda x: x[0] / x[2], lambda x: x[1] / x[2], [sa, sb, sc], 'div_obs')
            cmp(z1 * 2.5, lambda x: x[0] * 2.5, lambda x: x[1] * 2.5, S[:2], 'mul_float')
            cmp(z1 - 2, lambda x: x[0] - 2, lambda x: x[1], S[:2], 'sub_int')
        elif op == 'obs_complex':
            # real observable with a Python complex number
            cmp(a + w, lambda x: x[0] + 2, lambda x: 3.0, [sa], 'obs_add_complex', im_ops='number')
            cmp(a * w, lambda x: 2 * x[0], lambda x: 3 * x[0], [sa], 'obs_mul_complex')
            cmp(w * a, lambda x: 2 * x[0], lambda x: 3 * x[0], [sa], 'obs_rmul_complex')
        elif op == 'conj_neg':
            cmp(z1.conjugate(), lambda x: x[0], lambda x: -x[1], S[:2], 'conjugate')
            cmp(-z1, lambda x: -x[0], lambda x: -x[1], S[:2], 'neg')
        elif op == 'abs':
            # modulus of a complex observable: a real observable sqrt(re^2 + im^2), also when one part is a plain number
            lib.compare(cx, abs(z1), lib.derived_spec(lambda x: fn('sqrt', x[0] * x[0] + x[1] * x[1]), S[:2]), 'abs(cobs)')
            lib.compare(cx, abs(pe.CObs(a, -1.5)), lib.derived_spec(lambda x: fn('sqrt', x[0] * x[0] + 2.25), [sa]), 'abs(cobs with plain imaginary part)')
            lib.compare(cx, abs(pe.CObs(0.75, b)), lib.derived_spec(lambda x: fn('sqrt', 0.5625 + x[0] * x[0]), [sb]), 'abs(cobs with plain real part)')
            lib.compare(cx, abs(a + 2j), lib.derived_spec(lambda x: fn('sqrt', x[0] * x[0] + 4), [sa]), 'abs(obs + complex number)')


def h_derived(cx, la, lb, lc, variant):
    """explicit derived_observable calls: autograd (dual-number contract), num_grad (same contract), man_grad"""
    import pyerrors as pe
    import autograd.numpy as anp
    lib.sym_env(cx, *MODS)
    a, sa = _mk(cx, 'a', la)
    b, sb = _mk(cx, 'b', lb)
    c, sc = _mk(cx, 'c', lc)
    S = [sa, sb, sc]
    if variant == 'autograd':
        r = pe.derived_observable(lambda x, **kw: x[0] * anp.sin(x[1]) + x[2] / x[0], [a, b, c])
        s = lib.derived_spec(lambda x: x[0] * fn('sin', x[1]) + x[2] / x[0], S)
        lib.compare(cx, r, s, 'autograd')
    elif variant == 'num_grad':
        r = pe.derived_observable(lambda x, **kw: x[0] * x[1] - x[2] * x[2], [a, b, c], num_grad=True)
        s = lib.derived_spec(lambda x: x[0] * x[1] - x[2] * x[2], S)
        lib.compare(cx, r, s, 'num_grad')
        r = pe.derived_observable(lambda x, **kw: x[0] * x[0], [a], num_grad=True)
        lib.compare(cx, r, lib.derived_spec(lambda x: x[0] * x[0], [sa]), 'num_grad-1')
    elif variant == 'man_grad':
        g = [cx.real('g0'), cx.real('g1'), cx.real('g2')]
        r = pe.derived_observable(lambda x, **kw: x[0] + x[1] + x[2], [a, b, c], man_grad=g)
        # a supplied gradient is used as is: delta = sum_i g_i w_i delta_i
        s = lib.derived_spec(lambda x: x[0] + x[1] + x[2], S)
        s2 = _lin_spec(g, S, s)
        lib.compare(cx, r, s2, 'man_grad')
    elif variant == 'multi':
        # vector valued function, non-array mode
        mk = (lambda l: np.array(l, dtype=object)) if cx.mode == 'sym' else anp.array
        r = pe.derived_observable(lambda x, **kw: mk([x[0] * x[1], x[1] - x[2]]), [a, b, c])
        lib.compare(cx, r[0], lib.derived_spec(lambda x: x[0] * x[1] + 0 * x[2], S), 'multi[0]')
        lib.compare(cx, r[1], lib.derived_spec(lambda x: x[1] - x[2] + 0 * x[0], S), 'multi[1]')
    elif variant == 'ndarray':
        arr = np.array([1.5, -2.0])
        r = a + arr
        cx.expect(isinstance(r, np.ndarray) and r.shape == (2,), 'ndarray:shape')
        lib.compare(cx, r[0], lib.derived_spec(lambda x: x[0] + 1.5, [sa]), 'add_nd[0]')
        lib.compare(cx, r[1], lib.derived_spec(lambda x: x[0] - 2.0, [sa]), 'add_nd[1]')
        r = arr * a
        lib.compare(cx, r[1], lib.derived_spec(lambda x: -2.0 * x[0], [sa]), 'rmul_nd[1]')
        r = arr / a
        lib.compare(cx, r[0], lib.derived_spec(lambda x: 1.5 / x[0], [sa]), 'rdiv_nd[0]')
        r = a - arr
        lib.compare(cx, r[1], lib.derived_spec(lambda x: x[0] + 2.0, [sa]), 'sub_nd[1]')
        r = arr - a
        lib.compare(cx, r[0], lib.derived_spec(lambda x: 1.5 - x[0], [sa]), 'rsub_nd[0]')


def _lin_spec(g, S, base):
    """specification of a result with supplied gradient g (value / r_values from base)"""
    out = lib.Spec()
    out.idl = base.idl
    out.value = base.value
    out.r_values = base.r_values
    out.reweighted = base.reweighted
    acc = None
    for gi, si in zip(g, S):
        part = lib.derived_spec(lambda x: x[0], [si])
        emb = lib.embed(part, base.idl, None)
        for n in emb:
            out.deltas.setdefault(n, {c: 0 for c in base.idl[n]})
            for c in emb[n]:
                out.deltas[n][c] = out.deltas[n][c] + gi * emb[n][c]
        for cn, gr in si.grads.items():
            cur = out.grads.get(cn, [0] * len(gr))
            out.grads[cn] = [u + gi * v for u, v in zip(cur, gr)]
            out.covs[cn] = si.covs[cn]
    return out


from props import c10 as _c10  # noqa: array_mode of derived_observable is exercised through linalg.matmul
HARNESSES = dict(binop=h_binop, unop=h_unop, scalar=h_scalar, tree=h_tree, cobs=h_cobs, derived=h_derived, array_mode=_c10.h_matmul, binop_layouts=h_binop_layouts)


# ----------------------------------------------------------------------------- jobs

def _single(lst):
    return {'e|r1': list(lst)}


COV1 = ('cov', 'cv', 1, 0)
COV2 = ('cov', 'cw', 2, 1)
COVI = ('cov', 'cv', 1, 0, 2)          # covariance input with an integer-typed central value (cov_Obs(2, ...)): numpy infers dtypes from first elements


def jobs(tier, seed):
    J = []

    def add(h, **p):
        J.append(dict(harness=h, params=p))
    pairs = list(layouts.PAIRS_CORE)
    if tier == 'quick':
        pairs += layouts.random_pairs(seed + 1, 6)
    else:
        pairs += layouts.random_pairs(seed + 1, 60)
    arith = ['add', 'sub', 'mul', 'div']
    for A, B in pairs:
        add('binop', la=_single(A), lb=_single(B), ops=arith)
    for A, B in pairs[:4] + pairs[10:12]:
        add('binop', la=_single(A), lb=_single(B), ops=['pow', 'radd', 'rsub', 'rmul', 'rdiv'])
    for la, lb in layouts.MULTI_CORE:
        add('binop', la=la, lb=lb, ops=arith)
        add('binop', la=lb, lb=la, ops=['sub', 'div'])
    for la in [_single([1, 2, 3, 4, 5]), _single([1, 2, 4, 5, 7, 8]), {'e|r1': [1, 2, 3, 4, 5], 'e|r2': [2, 4, 6, 8, 10]},
               {'e|r1': [1, 2, 3, 4, 5], 'f|r1': [1, 3, 4, 5, 7]}]:
        add('unop', la=la, ops=['neg', 'pos', 'abs'] + FUNCS[:8])
        add('unop', la=la, ops=FUNCS[8:])
        for kind in ('sym', 'int', 'float', 'npfloat'):
            add('scalar', la=la, kind=kind, ops=sorted(SCALAR(0)))
        add('scalar', la=la, kind='pow', ops=sorted(POWS))
    # trees
    e1 = {'e|r1': [1, 2, 3, 4, 5], 'e|r2': [1, 2, 3, 4, 5, 6]}
    tsets = [
        (e1, e1, e1, True),                                                            # everything shared
        (_single([1, 2, 3, 4, 5, 6]), _single([2, 3, 4, 5, 6, 8]), _single([1, 3, 5, 7, 9]), True),   # same replica set, different configs
        ({'e|r1': [1, 2, 3, 4, 5]}, e1, {'e|r2': [1, 2, 3, 4, 5, 6]}, True),           # different replica subsets, same per-replica configs
        ({'e|r1': [1, 2, 3, 5, 6]}, {'e|r1': [1, 2, 3, 4, 5, 6], 'e|r2': [2, 4, 6, 8, 10]}, {'e|r2': [2, 4, 6, 8, 10], 'e|r3': [1, 2, 3, 4, 5]}, False),
        (_single([1, 2, 3, 4, 5]), COV1, {'f|r1': [1, 2, 3, 4, 5, 6]}, True),          # Monte Carlo + covariance input
        (COV2, COV2, _single([1, 2, 3, 4, 5]), True),                                  # shared covariance input
        (COV2, COV1, COV2, True),
        (COVI, _single([1, 2, 3, 4, 5]), COV1, True),                                  # integer-typed central value in the first operand
        (_single([1, 2, 3, 4, 5]), COVI, _single([1, 2, 3, 4, 5]), True),
    ]
    tnames = sorted(TREES)
    for la, lb, lc, one in tsets:
        add('tree', la=la, lb=lb, lc=lc, trees=tnames[:4], oneshot=one)
        add('tree', la=la, lb=lb, lc=lc, trees=tnames[4:], oneshot=one)
    # complex observables
    for la, lb in [(_single([1, 2, 3, 4, 5]), _single([1, 2, 3, 4, 5])), (_single([1, 2, 3, 4, 5, 6]), _single([2, 3, 4, 5, 6, 8])),
                   ({'e|r1': [1, 2, 3, 4, 5]}, {'e|r1': [1, 2, 3, 4, 5], 'e|r2': [1, 2, 3, 4, 5, 6]})]:
        add('cobs', la=la, lb=lb, ops=['add', 'sub', 'mul'])
        add('cobs', la=la, lb=lb, ops=['div'])
        add('cobs', la=la, lb=lb, ops=['mul_complex', 'add_complex', 'sub_complex', 'div_complex'])
        add('cobs', la=la, lb=lb, ops=['obs_mix', 'obs_complex', 'conj_neg'])
        add('cobs', la=la, lb=lb, ops=['abs'])
    # explicit derived_observable
    for la, lb, lc in [(_single([1, 2, 3, 4, 5]), _single([2, 3, 4, 5, 6, 8]), {'f|r1': [1, 2, 3, 4, 5]}),
                       ({'e|r1': [1, 2, 3, 4, 5]}, e1, COV2), (COVI, _single([1, 2, 3, 4, 5]), COV2)]:
        for v in ('autograd', 'num_grad', 'man_grad', 'multi', 'ndarray'):
            add('derived', la=la, lb=lb, lc=lc, variant=v)
    # layout parameters as symbolic integers: every pair of ranges in a box (and with one hole)
    box = dict(smax=8, stepmax=3, nlo=5, nhi=6)        # first configuration 1..8 (disjoint pairs with a gap included), spacing 1..3, 5..6 configurations
    for sa_ in (1, 2, 3):
        for sb_ in (1, 2, 3):
            J.append(dict(harness='binop_layouts', params=dict(ops=['add'], step_a=sa_, step_b=sb_, **box), opts=dict(maxpaths=3000)))
            if tier == 'thorough' or sa_ == sb_:
                J.append(dict(harness='binop_layouts', params=dict(ops=['mul'], hole_b=True, step_a=sa_, step_b=sb_, **box), opts=dict(maxpaths=3000)))
            if tier == 'thorough':
                J.append(dict(harness='binop_layouts', params=dict(ops=['div'], hole_a=True, hole_b=True, step_a=sa_, step_b=sb_, **box), opts=dict(maxpaths=3000)))
                J.append(dict(harness='binop_layouts', params=dict(ops=['sub'], second=[1, 2, 3, 4, 5], step_a=sa_, step_b=sb_, **box), opts=dict(maxpaths=3000)))
    # array_mode (the branch behind linalg.matmul): covariance inputs on some operands only, Monte Carlo operands on different ensembles
    add('array_mode', n=2, nf=2, lays=[{'e|r1': [1, 2, 3, 4, 5]}, {'f|r1': [2, 4, 6, 8, 10]}], covf=[False, True])
    add('array_mode', n=2, nf=3, lays=[{'e|r1': [1, 2, 3, 4, 5]}], covf=[False, False, True])
    if tier == 'thorough':
        allp = layouts.all_pairs()
        step = 1
        for i in range(0, len(allp), 12 * step):
            pass
        for A, B in allp:
            add('binop', la=_single(A), lb=_single(B), ops=['add', 'mul', 'div'])
    return J


# ----------------------------------------------------------------------------- canaries

def apply_canary(name):
    from symx.mutate import mutate
    if name == 'drop-upweight':
        return mutate('pyerrors.obs', '_expand_deltas_for_merge', '* len(new_idx) / len(idx) * scalefactor', '* scalefactor')
    if name == 'rtruediv-sign':
        return mutate('pyerrors.obs', 'Obs.__rtruediv__', 'man_grad=[-y / self.value ** 2]', 'man_grad=[y / self.value ** 2]')
    if name == 'scalef-own-lengths':
        return mutate('pyerrors.obs', 'derived_observable', 'sum([len(new_idl_d[name]) for name in mc_idl_d])', 'sum([len(obs.idl[name]) for name in mc_idl_d])')
    if name == 'tan-grad':
        return mutate('pyerrors.obs', 'Obs.tan', '1 / np.cos(self.value) ** 2', '1 / np.cos(self.value)')
    raise KeyError(name)


def _canary_jobs(kind):
    def f(tier, seed):
        if kind == 'pairs':
            return [dict(harness='binop', params=dict(la=_single(A), lb=_single(B), ops=['add', 'mul'])) for A, B in layouts.PAIRS_CORE[2:4]]
        if kind == 'rdiv':
            return [dict(harness='scalar', params=dict(la=_single([1, 2, 3, 4, 5]), kind='float', ops=['rdiv_c']))]
        if kind == 'multi':
            return [dict(harness='binop', params=dict(la=la, lb=lb, ops=['add'])) for la, lb in layouts.MULTI_CORE[2:3]]
        if kind == 'tan':
            return [dict(harness='unop', params=dict(la=_single([1, 2, 3, 4, 5]), ops=['tan']))]
    return f


CANARIES = [
    dict(name='drop-upweight', what='len(new)/len(old) dropped in _expand_deltas_for_merge', jobs=_canary_jobs('pairs'), quick=True),
    dict(name='rtruediv-sign', what='sign of man_grad in Obs.__rtruediv__', jobs=_canary_jobs('rdiv')),
    dict(name='scalef-own-lengths', what='missing-replica scale factor uses own instead of union lengths', jobs=_canary_jobs('multi')),
    dict(name='tan-grad', what='derivative of tan', jobs=_canary_jobs('tan')),
]

META = dict(
    explanation='C01: the real Obs/CObs operators, numpy-style functions and derived_observable run on symbolic Monte-Carlo samples; every '
                'attribute of every result (names, idl, value, replica means, every fluctuation, every covariance gradient) is compared with a '
                'specification written on the raw samples (union of configuration sets, up-weighting by union/own and ensemble/own-replicas, '
                'partial derivatives from textbook dual-number calculus).',
    bounds='1-2 ensembles x 1-3 replicas; configuration lists of 5..9 entries inside {1..18}: contiguous, strided, gapped, irregular; operand pairs '
           'identical / nested / partly overlapping / disjoint (quick: 10 core pairs + 6 seeded, 8 multi-chain pairs; thorough: all 93^2 ordered pairs of '
           'subsets of {1..8} with >= 5 entries); expression depth <= 2; covariance inputs of dimension 1-2; number operands int / float / numpy float / '
           'symbolic real / Python complex / 1-d ndarray.',
    outside=['floating-point rounding', 'derivatives routed through autograd / numdifftools (abs, arc*, explicit calls) are represented by the dual-number '
             'contract, so for those only the wiring and the linear propagation are decided', 'Obs ** Obs and non-integer powers modulo the opaque pow/log symbols',
             'ndarray operands beyond 1-d'],
    stubs=['numpy shim (object pre-allocation, opaque elementary functions)', 'autograd.jacobian / numdifftools.Gradient -> forward-mode dual numbers'],
    assumptions=['transcendental functions are uninterpreted symbols with functional consistency and the identities listed in symx/core.py'],
    exhaustive_thorough=True,
)
