"""C07 Linear least-squares fits reproduce the closed-form GLS estimator (under the library contracts)."""
import itertools

import numpy as np

from symx import core, lib, dual
from symx.core import SV
from props import fitlib

PROPERTY = 'C07'
OPTS = dict(timeout=120000, maxpaths=40, abs_scale=1e-6)

# linear models: name -> (n_parms, f(a, x))
MODELS = {
    'const': (1, lambda a, x: a[0] + 0 * x),
    'line': (2, lambda a, x: a[0] + a[1] * x),
    'quad': (3, lambda a, x: a[0] + a[1] * x + a[2] * x * x),
    'slope': (1, lambda a, x: a[0] * x),
    'plane': (3, lambda a, x: a[0] + a[1] * x[0] + a[2] * x[1]),
    # combined fits: shared intercept / slope
    'lineA': (3, lambda a, x: a[0] + a[1] * x),
    'lineB': (3, lambda a, x: a[0] + a[2] * x),
}


def design_matrix(f, n_parms, xs):
    """A[i][j] = d model_i / d p_j for a model linear in the parameters (concrete)"""
    xs = np.asarray(xs, dtype=float)
    npts = xs.shape[-1]
    base = np.asarray(f(np.zeros(n_parms), xs), dtype=float).reshape(-1)
    A = np.zeros((npts, n_parms))
    for j in range(n_parms):
        e = np.zeros(n_parms)
        e[j] = 1.0
        A[:, j] = np.asarray(f(e, xs), dtype=float).reshape(-1) - base
    return A


def h_gls(cx, models, xs, ylay, priors=None, method=None, key_order=None, correlated=False, num_grad=False, minfail=False):
    """models/xs/ylay: dict key -> ... (combined fit) or single values under key ''."""
    import pyerrors as pe
    rec = fitlib.install(cx, {}, minfail=minfail)
    keys = sorted(models)
    combined = not (keys == [''])
    yobs, yspec = {}, {}
    for k in keys:
        yobs[k], yspec[k] = fitlib.mk_data(cx, 'y%s' % k, ylay[k])
    n_parms = max(MODELS[models[k]][0] for k in keys)
    # priors: dict pos -> ('obs', layout) | ('str', 'v(e)')
    pri_arg = None
    pri_specs = {}
    pri_err = {}
    if priors:
        pri_arg = {}
        for pos, (kind, val) in priors.items():
            pos = int(pos)
            if kind == 'obs':
                (o,), (s,) = fitlib.mk_data(cx, 'prior%d' % pos, [val])
                pri_arg[pos] = o
                pri_specs[pos] = s
                pri_err[pos] = o.dvalue
            else:
                pri_arg[pos] = val
                v, e = val.split('(')
                e = e[:-1]
                fac = 10 ** -len(v.partition('.')[2]) if '.' in v and '.' not in e else 1
                pri_specs[pos] = ('str', float(v), float(e) * fac)
        if set(pri_arg) == set(range(n_parms)) and (key_order or 0) % 2 == 0:
            pri_arg = [pri_arg[i] for i in range(n_parms)]      # list form
    kw = dict(silent=True)
    if method:
        kw['method'] = method
    if num_grad:
        kw['num_grad'] = True
    L = None
    ntot = sum(len(ylay[k]) for k in keys)
    if correlated:
        # user supplied inverse Cholesky factor (lower triangular, symbolic entries, positive diagonal)
        if cx.mode == 'sym':
            L = np.zeros((ntot, ntot), dtype=object)
            for i in range(ntot):
                for j in range(i + 1):
                    L[i, j] = cx.real('L_%d_%d' % (i, j))
                cx.assume(L[i, i] > 0)
        else:
            L = np.zeros((ntot, ntot))
            for i in range(ntot):
                for j in range(i + 1):
                    L[i, j] = cx.real('L_%d_%d' % (i, j)) * (0.2 if i != j else 1.0)
                L[i, i] = abs(L[i, i]) + 0.5
        kw['correlated_fit'] = True
        if correlated == 'estimated':
            # no matrix supplied: the library estimates the correlation matrix of the data and inverts it through its Cholesky factor.
            # sym: covariance() and invert_corr_cov_cholesky() are replaced by recorders that return a symbolic correlation matrix / the symbolic
            # lower-triangular L; what they are handed is an obligation (their own correctness is decided in C06: cov, cholinv).
            # conc: everything real; L is recomputed with the library's functions in the harness's own (sorted-key) order of the data.
            import pyerrors.fits as F
            rec['est'] = {}
            if cx.mode == 'sym':
                Csym = np.empty((ntot, ntot), dtype=object)
                for i in range(ntot):
                    for j in range(i + 1):
                        Csym[i, j] = Csym[j, i] = 1.0 if i == j else cx.real('rho_%d_%d' % (i, j))

                def covariance(obs, **k):
                    rec['est']['cov_call'] = (list(obs), dict(k))
                    return Csym.copy()

                def invert(corr, inverrdiag):
                    rec['est']['inv_call'] = (np.asarray(corr, dtype=object), np.asarray(inverrdiag, dtype=object))
                    return L
                cx.patch(F, 'covariance', covariance)
                cx.patch(F, 'invert_corr_cov_cholesky', invert)
                rec['est']['Csym'] = Csym
        else:
            kw['inv_chol_cov_matrix'] = [L, keys]
    if priors:
        kw['priors'] = pri_arg
    if combined:
        order = list(keys)
        if key_order:
            order = list(itertools.permutations(keys))[key_order % len(list(itertools.permutations(keys)))]
        fx = {k: np.array(xs[k], dtype=float) for k in order}
        fy = {k: yobs[k] for k in reversed(order)}
        ff = {k: MODELS[models[k]][1] for k in order}
        out = fitlib.guarded_fit(cx, rec, lambda: pe.least_squares(fx, fy, ff, **kw))
    else:
        out = fitlib.guarded_fit(cx, rec, lambda: pe.least_squares(np.array(xs[''], dtype=float), yobs[''], MODELS[models['']][1], **kw))
    if out is None:
        return
    res = out.fit_parameters
    cx.expect(len(res) == n_parms, 'number of parameters')
    for r in res:
        lib.check_wellformed(cx, r, 'fit-parameter')
    if correlated == 'estimated':
        yflat = [o for k in keys for o in yobs[k]]
        if cx.mode == 'sym':
            est = rec['est']
            if cx.expect('cov_call' in est and 'inv_call' in est, 'estimated correlated fit: covariance() and invert_corr_cov_cholesky() used'):
                obs_, kws = est['cov_call']
                cx.expect(len(obs_) == len(yflat) and all(a is b for a, b in zip(obs_, yflat)), 'correlation matrix estimated from the data points in the order of the residuals (sorted keys)')
                cx.expect(kws.get('correlation') is True, 'correlation=True requested', str(kws))
                corr_, ierr_ = est['inv_call']
                if cx.expect(corr_.shape == (ntot, ntot) and ierr_.shape == (ntot, ntot), 'shapes handed to invert_corr_cov_cholesky'):
                    for i in range(ntot):
                        for j in range(ntot):
                            cx.prove_eq(corr_[i, j], est['Csym'][i, j], 'matrix inverted = estimated correlation matrix[%d,%d]' % (i, j), use_facts=False)
                            cx.prove_eq(ierr_[i, j] * yflat[i].dvalue, 1 if i == j else 0, 'inverrdiag = diag(1 / dy)[%d,%d]' % (i, j), use_facts=False)
        else:
            for o in yflat:
                o.gamma_method()
            cr = pe.covariance(yflat, correlation=True)
            L = pe.obs.invert_corr_cov_cholesky(cr, np.diag(1 / np.array([o.dvalue for o in yflat])))
    # ---- GLS normal equations, without inverting
    A = np.concatenate([design_matrix(MODELS[models[k]][1], n_parms, xs[k]) for k in keys])       # rows in sorted-key order
    Y = [s for k in keys for s in yspec[k]]
    dY = [o.dvalue for k in keys for o in yobs[k]]
    npts = len(Y)
    # prior rows
    prows = []
    strp = {}
    for pos in pri_specs:      # insertion order of the priors argument = order of the prior columns the code hands to the solver / derived_observable
        ps = pri_specs[pos]
        if isinstance(ps, tuple):
            strp[pos] = ps
            prows.append((pos, lib.const_spec(ps[1]), ps[2]))
        else:
            prows.append((pos, ps, pri_err[pos]))
    allspecs = Y + [p[1] for p in prows if not (isinstance(pri_specs[p[0]], tuple))]

    def _neq(tot, resid, label, j):
        if cx.mode == 'sym':
            cx.prove_eq(tot, 0, '%s: normal equation[%d]' % (label, j))
        else:
            # replay: the real minimiser converges to ~1e-5 (MINUIT / Nelder-Mead); a defect is O(1)
            scale = sum(abs(float(r)) for r in resid) * max(1.0, max(1 / float(d * d) for d in dY)) + 1e-300
            cx.prove(abs(float(tot)) <= 5e-3 * scale, '%s: normal equation[%d]' % (label, j))

    def normal_eq(getP, getY, getPr, label):
        """sum_i A_ij w_i (sum_l A_il P_l - Y_i) + prior rows = 0 for every parameter j"""
        if L is None:
            resid = [(sum(A[i][l] * getP(l) for l in range(n_parms)) - getY(i)) for i in range(npts)]
            for j in range(n_parms):
                tot = sum(A[i][j] * resid[i] / (dY[i] * dY[i]) for i in range(npts))
                for (pos, ps, perr), k in zip(prows, range(len(prows))):
                    if pos == j:
                        tot = tot + (getP(pos) - getPr(k)) / (perr * perr)
                _neq(tot, resid, label, j)
        else:
            resid = [(sum(A[i][l] * getP(l) for l in range(n_parms)) - getY(i)) for i in range(npts)]
            Lr = [sum(L[a, i] * resid[i] for i in range(a + 1)) for a in range(npts)]
            for j in range(n_parms):
                LA = [sum(L[a, i] * A[i][j] for i in range(a + 1)) for a in range(npts)]
                tot = sum(LA[a] * Lr[a] for a in range(npts))
                for (pos, ps, perr), k in zip(prows, range(len(prows))):
                    if pos == j:
                        tot = tot + (getP(pos) - getPr(k)) / (perr * perr)
                _neq(tot, Lr, label, j)
    def chi2_spec(p):
        resid = [(sum(A[i][l] * p[l] for l in range(n_parms)) - Y[i].value) for i in range(npts)]
        if L is None:
            c2 = sum(r * r / (d * d) for r, d in zip(resid, dY))
        else:
            c2 = sum(sum(L[a, i] * resid[i] for i in range(a + 1)) ** 2 for a in range(npts))
        for (pos, ps, perr) in prows:
            c2 = c2 + (p[pos] - ps.value) * (p[pos] - ps.value) / (perr * perr)
        return c2
    if cx.mode == 'sym':
        # (D) the function handed to the (last) minimiser is the documented chi-square, at an arbitrary point p*; the minimiser
        # contract (returns a stationary point of what it is given) then yields the normal equations for the central values
        last = rec['minimise'][-1]
        pstar = [cx.real('pstar%d' % l) for l in range(n_parms)]
        cx.prove_eq(last['fun'](np.array(pstar, dtype=object)), chi2_spec(pstar), '(D) minimised function = documented chi-square at arbitrary p', use_facts=False)
        for l in range(n_parms):
            cx.prove_eq(res[l].value, last['x'][l], '(V) parameter value = minimiser result[%d]' % l, use_facts=False)
        cx.expect(len(rec['minimise']) == (2 if correlated else 1), 'minimiser calls', str(len(rec['minimise'])))
    if cx.mode == 'conc' or (L is None and npts <= 2):
        # end-to-end form (redundant with (D) + contract; kept for the smallest cases)
        normal_eq(lambda l: res[l].value, lambda i: Y[i].value, lambda k: prows[k][1].value, 'value')
    # ---- fluctuations: decomposed (DESIGN C08): with N = A^T W A (+ prior rows) the code must hand H = 2N and
    # M = d(grad chi2)/d(data) = -2 A^T W (data block) / -2 w_prior (prior block) to scipy.linalg.solve, and every fluctuation of
    # parameter l must be -sum_k X[l,k] * (embedded fluctuation of data k), X the matrix returned by the solve contract (H X = M).
    # (A) and (B) and (C) and H X = M  ==>  N dp = A^T W dy, i.e. the GLS estimator for every fluctuation (linear algebra).
    datas = Y + [p[1] for p in prows]
    comps, idl = fitlib.components(datas)
    rcomps = fitlib.res_components(res, idl, datas)
    if cx.mode == 'sym':
        solves = getattr(cx, 'solves', [])
        if not cx.expect(len(solves) == 1, 'exactly one linear solve', str(len(solves))):
            return
        H, M, X = solves[0]
        if not cx.expect(H.shape == (n_parms, n_parms) and M.shape == (n_parms, npts + len(prows)), 'shapes of H and M', '%s %s' % (H.shape, M.shape)):
            return
        if L is None:
            Wm = [[(1 / (dY[i] * dY[i]) if i == k else 0) for k in range(npts)] for i in range(npts)]
        else:
            Wm = [[sum(L[a, i] * L[a, k] for a in range(max(i, k), npts)) for k in range(npts)] for i in range(npts)]
        for j in range(n_parms):
            for l in range(n_parms):
                N = sum(A[i][j] * Wm[i][k] * A[k][l] for i in range(npts) for k in range(npts))
                for (pos, ps, perr) in prows:
                    if pos == j == l:
                        N = N + 1 / (perr * perr)
                cx.prove_eq(H[j, l], 2 * N, '(A) H[%d,%d] = 2 (A^T W A + priors)' % (j, l), use_facts=False)
            for k in range(npts):
                cx.prove_eq(M[j, k], -2 * sum(A[i][j] * Wm[i][k] for i in range(npts)), '(B) M[%d,y%d] = -2 (A^T W)' % (j, k), use_facts=False)
            for q, (pos, ps, perr) in enumerate(prows):
                cx.prove_eq(M[j, npts + q], (-2 / (perr * perr)) if pos == j else 0, '(B) M[%d,prior%d]' % (j, q), use_facts=False)
        for (lab, dcomp), (_, rcomp) in zip(comps, rcomps):
            if any(v is None for v in rcomp):
                cx.fail('parameter lacks %s' % lab)
                continue
            for l in range(n_parms):
                cx.prove_eq(rcomp[l], -sum(X[l, k] * dcomp[k] for k in range(len(dcomp))), '(C) d p_%d = -sum_k X[%d,k] d data_k  %s' % (l, l, lab), use_facts=False)
    else:
        for (lab, dcomp), (_, rcomp) in zip(comps, rcomps):
            if any(v is None for v in rcomp):
                cx.fail('parameter lacks %s' % lab)
                continue
            normal_eq(lambda l: rcomp[l], lambda i: dcomp[i], lambda k: dcomp[npts + k], lab)
    # string priors are independent inputs: their own covariance name with gradient 1 * (sensitivity)
    # chi-square, dof, p-value wiring
    resid = [(sum(A[i][l] * res[l].value for l in range(n_parms)) - Y[i].value) for i in range(npts)]
    if L is None:
        chi2 = sum(r * r / (d * d) for r, d in zip(resid, dY))
    else:
        chi2 = sum(sum(L[a, i] * resid[i] for i in range(a + 1)) ** 2 for a in range(npts))
    for (pos, ps, perr) in prows:
        chi2 = chi2 + (res[pos].value - ps.value) * (res[pos].value - ps.value) / (perr * perr)
    if cx.mode == 'sym':
        # with (D) this gives chisquare = documented chi-square at the solution
        cx.prove_eq(out.chisquare, rec['minimise'][-1]['fun'](rec['minimise'][-1]['x']), 'chisquare = minimised function at the solution', use_facts=False)
    if cx.mode == 'conc' or (L is None and npts <= 2 and not prows):
        cx.prove_eq(out.chisquare, chi2, 'chisquare = weighted residual norm')
    cx.expect(out.dof == npts - n_parms + len(prows), 'dof = points - parameters + priors', str(out.dof))
    if cx.mode == 'sym':
        calls = rec.get('cdf', [])
        cx.expect(len(calls) >= 1 and calls[0][0] == 'chi2cdf' and calls[0][2] == out.dof, 'p-value from chi2.cdf(chisquare, dof)')
        if correlated:
            # Hotelling t^2: 1 - F.cdf((n - dof) / (dof (n - 1)) chisquare, dof, n - dof) with n the SMALLEST sample count among the data points
            nmin = min(o.N for k in keys for o in yobs[k])
            fc = [c_ for c_ in calls if c_[0] == 'fcdf']
            if cx.expect(len(fc) == 1 and hasattr(out, 't2_p_value'), 't2_p_value from one f.cdf call'):
                cx.expect(fc[0][2] == out.dof and fc[0][3] == nmin - out.dof, 'f.cdf degrees of freedom (dof, n_min - dof)', str(fc[0][2:]))
                cx.prove_eq(fc[0][1] * (out.dof * (nmin - 1)), (nmin - out.dof) * out.chisquare, 'f.cdf argument = (n_min - dof) / (dof (n_min - 1)) chisquare')
        if calls:
            cx.prove_eq(calls[0][1], out.chisquare, 'p-value argument = chisquare')
        cx.expect(isinstance(out.p_value, SV), 'p_value = 1 - cdf')
    if out.dof > 0:
        cx.prove_eq(out.chisquare_by_dof * out.dof, out.chisquare, 'chisquare_by_dof')


def h_corr_fit(cx, T, pat, lo, hi):
    """Corr.fit / plateau(method='fit'): constant model over the defined timeslices of the range = weighted mean"""
    import pyerrors as pe
    rec = fitlib.install(cx, {})
    obs, specs = fitlib.mk_data(cx, 'c', [{'e|r1': [1, 2, 3, 4, 5]} if pat[t] else None for t in range(T)][0:0] or [{'e|r1': [1, 2, 3, 4, 5]}] * sum(pat))
    it = iter(zip(obs, specs))
    content, S = [], []
    for t in range(T):
        if pat[t]:
            o, s = next(it)
            content.append(o)
            S.append(s)
        else:
            content.append(None)
            S.append(None)
    corr = pe.Corr(content)
    sel = [t for t in range(lo, hi + 1) if S[t] is not None]
    try:
        r = corr.plateau([lo, hi], method='fit')
    except ValueError:
        cx.expect(not sel, 'raises-only-if-range-undefined')
        return
    if not cx.expect(bool(sel), 'must-raise-if-range-undefined'):
        return
    # weighted mean: sum_i w_i (p - y_i) = 0 in value and every fluctuation
    w = [1 / (content[t].dvalue * content[t].dvalue) for t in sel]
    cx.prove_eq(sum(wi * (r.value - S[t].value) for wi, t in zip(w, sel)), 0, 'plateau(fit): weighted mean value')
    comps, idl = fitlib.components([S[t] for t in sel])
    rc = fitlib.res_components([r], idl, [S[t] for t in sel])
    for (lab, d), (_, rr) in zip(comps, rc):
        cx.prove_eq(sum(wi * (rr[0] - di) for wi, di in zip(w, d)), 0, 'plateau(fit): weighted mean %s' % lab)
    # Corr.fit with prange
    corr.prange = [lo, hi]
    out = corr.fit(lambda a, x: a[0] + 0 * x, silent=True)
    lib.eq_obs(cx, out[0], r, 'Corr.fit(prange) = plateau')
    # an explicitly given range wins over a stored plateau range (fit and plateau by fit)
    corr.prange = [0, 0] if S[0] is not None else [T - 1, T - 1]
    try:
        r2 = corr.plateau([lo, hi], method='fit')
        out2 = corr.fit(lambda a, x: a[0] + 0 * x, [lo, hi], silent=True)
    except core.Realize:
        raise
    except Exception as e:
        cx.fail('explicit range with a stored prange raises', '%s: %s' % (type(e).__name__, e))
        return
    lib.eq_obs(cx, r2, r, 'plateau(range, fit) ignores a stored prange')
    lib.eq_obs(cx, out2[0], r, 'Corr.fit(f, range) ignores a stored prange')


HARNESSES = dict(gls=h_gls, corr_fit=h_corr_fit)


def jobs(tier, seed):
    J = []

    def add(h, **p):
        J.append(dict(harness=h, params=p))
    E = {'e|r1': [1, 2, 3, 4, 5]}
    Ei = {'e|r1': [1, 2, 4, 5, 6]}
    F_ = {'f|r1': [2, 4, 6, 8, 10]}
    M = {'e|r1': [1, 2, 3, 4, 5], 'e|r2': [1, 2, 3, 4, 5, 6]}
    CV = ('cov', 'cv', 2)
    S = lambda m, x, y, **kw: add('gls', models={'': m}, xs={'': x}, ylay={'': y}, **kw)
    S('const', [1.0, 2.0], [E, E])
    # minimiser contract including its failure mode (did not converge -> the fit must raise)
    S('line', [1.0, 2.0, 4.0], [E, E, E], minfail=True)
    S('line', [1.0, 2.0, 4.0], [E, E, F_], minfail=True, method='migrad')
    S('line', [1.0, 2.0, 4.0], [E, E, F_], minfail=True, method='Powell', correlated=True)
    # correlated fits with the correlation matrix estimated from the data (wiring into covariance / invert_corr_cov_cholesky; their correctness: C06)
    S('line', [1.0, 2.0, 4.0], [E, E, E], correlated='estimated')
    S('line', [0.5, 1.5, 2.5], [E, F_, E], correlated='estimated', method='migrad')
    add('gls', models={'b': 'lineA', 'a': 'lineB'}, xs={'a': [1.0, 2.0], 'b': [1.0, 3.0]}, ylay={'a': [E, E], 'b': [E, E]}, correlated='estimated', key_order=1)
    S('const', [1.0, 2.0, 3.0], [E, Ei, F_])
    S('line', [1.0, 2.0], [E, E])
    S('line', [1.0, 2.0, 4.0], [E, E, E])
    S('line', [0.5, 1.5, 2.5], [E, F_, M])
    S('line', [1.0, 2.0, 3.0], [E, CV, Ei])
    S('slope', [1.0, 2.0, 3.0], [E, E, F_])
    S('quad', [0.0, 1.0, 2.0, 3.0], [E, E, E, E])
    S('plane', [[0.0, 1.0, 0.0, 1.0], [0.0, 0.0, 1.0, 2.0]], [E, E, F_, E])
    for meth in ('migrad', 'Nelder-Mead', 'Powell'):
        S('line', [1.0, 2.0, 4.0], [E, E, F_], method=meth)
    S('line', [1.0, 2.0, 4.0], [E, E, F_], num_grad=True)
    # numerical differentiation combined with the other options (each combination has its own code path for the error propagation)
    S('line', [1.0, 2.0, 4.0], [E, E, E], num_grad=True, correlated=True)
    S('line', [1.0, 2.0, 4.0], [{'e|r1': [1, 2, 3, 4, 5, 6, 7]}, E, {'e|r1': [1, 2, 3, 4, 5, 6]}], correlated=True)      # data points with different sample counts (Hotelling t^2 uses the smallest)
    S('line', [1.0, 2.0, 4.0], [E, E, E], num_grad=True, correlated='estimated')
    S('line', [1.0, 2.0, 3.0], [E, F_, E], num_grad=True, priors={'0': ('obs', F_)})
    S('line', [1.0, 2.0, 3.0], [E, E, E], num_grad=True, correlated=True, priors={'1': ('obs', F_)}, method='migrad')
    # priors: Obs / string, on subsets, list and dict form
    S('line', [1.0, 2.0, 3.0], [E, E, E], priors={'0': ('obs', F_)})
    S('line', [1.0, 2.0, 3.0], [E, E, E], priors={'1': ('obs', E)})
    S('line', [1.0, 2.0], [E, F_], priors={'0': ('obs', F_), '1': ('str', '1.5(3)')})
    S('line', [1.0, 2.0], [E, F_], priors={'0': ('str', '0.548(23)'), '1': ('str', '1.5(3)')}, key_order=1)
    S('quad', [0.0, 1.0, 2.0], [E, E, E], priors={'2': ('str', '0.10(5)')})
    # every notation of 'value(error)': error with its own decimal point, integer value, error larger than the value's last digit
    S('line', [1.0, 2.0], [E, F_], priors={'0': ('str', '1.5(1.2)'), '1': ('str', '2(1)')})
    S('line', [1.0, 2.0, 3.0], [E, E, F_], priors={'1': ('str', '0.40(0.25)'), '0': ('str', '12.3(4.5)')}, key_order=1)
    S('line', [1.0, 2.0], [E, F_], priors={'0': ('str', '1.50(12)'), '1': ('str', '-0.7(1.1)')})
    S('line', [1.0, 2.0, 3.0], [E, E, E], priors={'0': ('obs', F_)}, method='migrad')
    # correlated fit with user supplied inverse Cholesky factor
    S('line', [1.0, 2.0, 3.0], [E, E, E], correlated=True)
    S('const', [1.0, 2.0, 3.0], [E, Ei, F_], correlated=True)
    S('line', [1.0, 2.0, 3.0], [E, E, E], correlated=True, priors={'1': ('obs', F_)})
    S('line', [1.0, 2.0, 3.0], [E, E, E], correlated=True, method='migrad')
    # dictionary priors inserted in descending parameter order (insertion order must not matter), with and without correlations
    S('quad', [0.0, 1.0, 2.0, 3.0], [E, E, E, E], priors={'2': ('str', '0.10(5)'), '0': ('obs', F_)})
    S('quad', [0.0, 1.0, 2.0, 3.0], [E, E, E, E], correlated=True, priors={'2': ('obs', F_), '0': ('str', '1.5(3)')})
    S('line', [1.0, 2.0, 3.0], [E, E, E], correlated=True, priors={'1': ('obs', F_), '0': ('obs', Ei)}, key_order=1)
    # combined fits with shared parameters, all key orders
    for ko in range(2):
        add('gls', models={'a': 'lineA', 'b': 'lineB'}, xs={'a': [1.0, 2.0], 'b': [1.0, 3.0]}, ylay={'a': [E, E], 'b': [E, F_]}, key_order=ko)
    add('gls', models={'b': 'lineA', 'a': 'lineB'}, xs={'a': [1.0, 2.0, 3.0], 'b': [1.0, 3.0]}, ylay={'a': [E, E, Ei], 'b': [F_, F_]}, key_order=1,
        priors={'0': ('obs', M)})
    add('gls', models={'a': 'lineA', 'b': 'lineB'}, xs={'a': [1.0, 2.0], 'b': [1.0, 3.0]}, ylay={'a': [E, E], 'b': [E, F_]}, correlated=True)
    if tier == 'thorough':
        for ko in range(6):
            add('gls', models={'a': 'lineA', 'b': 'lineB', 'c': 'lineA'}, xs={'a': [1.0, 2.0], 'b': [1.0, 3.0], 'c': [0.5]}, ylay={'a': [E, E], 'b': [E, F_], 'c': [Ei]}, key_order=ko)
        S('quad', [0.0, 1.0, 2.0, 3.0, 4.0], [E, Ei, F_, M, E])
        S('line', [1.0, 2.0, 3.0, 4.0], [E, E, E, E], correlated=True)
        # cross product of model x data layout x priors x minimiser x chi-square kind
        import itertools
        lay3 = [[E, E, E], [E, F_, Ei], [M, E, CV]]
        pri = [None, {'0': ('obs', F_)}, {'0': ('str', '0.40(0.25)')}]
        for (m, xs_), ys, pr, meth, co in itertools.product((('line', [1.0, 2.0, 4.0]), ('const', [0.0, 1.0, 3.0]), ('slope', [0.5, 1.5, 2.5])), lay3, pri,
                                                           (None, 'migrad', 'Nelder-Mead'), (False, True, 'estimated')):
            if pr and any(int(k) >= MODELS[m][0] for k in pr):
                continue
            if co == 'estimated' and any(not isinstance(l, dict) for l in ys):
                continue        # the estimated correlation matrix needs Monte Carlo data on every point
            kw = {}
            if pr:
                kw['priors'] = pr
            if meth:
                kw['method'] = meth
            if co:
                kw['correlated'] = co
            S(m, xs_, ys, **kw)
    for pat, lo, hi in (((True, True, True, True), 0, 3), ((True, False, True, True), 0, 3), ((False, True, True, False), 0, 3), ((True, True, False, False), 2, 3),
                        ((True, True, True, True), 1, 2)):
        add('corr_fit', T=4, pat=pat, lo=lo, hi=hi)
    return J


def apply_canary(name):
    from symx.mutate import mutate
    if name == 'hess-block':
        return mutate('pyerrors.fits', 'least_squares', 'jac_jac_y[:n_parms, n_parms:]', 'jac_jac_y[n_parms:, :n_parms].T * 0 + jac_jac_y[:n_parms, n_parms:] * 2')
    if name == 'deriv-sign':
        return mutate('pyerrors.fits', 'least_squares', 'deriv_y = -scipy.linalg.solve(hess,', 'deriv_y = scipy.linalg.solve(hess,')
    if name == 'dof':
        return mutate('pyerrors.fits', 'least_squares', 'output.dof = y_all.shape[-1] - n_parms + len(loc_priors)', 'output.dof = y_all.shape[-1] - n_parms')
    if name == 'est-inverr':
        return mutate('pyerrors.fits', 'least_squares', '            inverrdiag = np.diag(1 / np.asarray(dy_f))\n', '            inverrdiag = np.diag(1 / np.asarray(dy_f) ** 2)\n')
    if name == 'prior-order':
        return mutate('pyerrors.fits', 'least_squares', 'list(y_all) + loc_priors, man_grad=list(deriv_y[i])', 'loc_priors + list(y_all), man_grad=list(deriv_y[i])')
    raise KeyError(name)


def _cj(**p):
    return lambda tier, seed: [dict(harness='gls', params=p)]


_E = {'e|r1': [1, 2, 3, 4, 5]}
_F = {'f|r1': [2, 4, 6, 8, 10]}
CANARIES = [
    dict(name='est-inverr', what='estimated correlated fit: inverse variances instead of inverse errors handed to the Cholesky inverse', jobs=_cj(models={'': 'line'}, xs={'': [1.0, 2.0, 4.0]}, ylay={'': [_E, _E, _E]}, correlated='estimated')),
    dict(name='deriv-sign', what='sign of -H^-1 M', quick=True, jobs=_cj(models={'': 'line'}, xs={'': [1.0, 2.0, 4.0]}, ylay={'': [_E, _E, _E]})),
    dict(name='hess-block', what='mixed Hessian block scaled', jobs=_cj(models={'': 'line'}, xs={'': [1.0, 2.0, 4.0]}, ylay={'': [_E, _E, _E]})),
    dict(name='dof', what='priors not counted in dof', jobs=_cj(models={'': 'line'}, xs={'': [1.0, 2.0, 3.0]}, ylay={'': [_E, _E, _E]}, priors={'0': ('obs', _F)})),
    dict(name='prior-order', what='order of data and priors vs man_grad', jobs=_cj(models={'': 'line'}, xs={'': [1.0, 2.0, 3.0]}, ylay={'': [_E, _E, _E]}, priors={'0': ('obs', _F)})),
]

META = dict(
    explanation='C07: the real least_squares body (key sorting, data assembly, parameter counting, prior construction, residual closures, chi-square, dof, p-value wiring, '
                'Hessian / mixed-derivative block, scipy.linalg.solve, derived_observable with man_grad) runs on symbolic y samples, symbolic y errors, symbolic priors and a '
                'symbolic user-supplied inverse Cholesky factor behind contract stubs. Decided: the GLS normal equations A^T W A p = A^T W y (W incl. prior rows, or L^T L) for the '
                'central values AND for every per-configuration fluctuation and covariance gradient, chisquare = weighted residual norm, dof, the arguments of the p-value. '
                'Corr.fit / plateau(fit) with a constant model = weighted mean.',
    bounds='models linear in 1-3 parameters, 1-2 abscissa dimensions, 2-4 (thorough 5) points, 1-2 (thorough 3) data sets with shared parameters and all key orders, priors '
           '(Obs and strings, list and dict form) on parameter subsets, methods Levenberg-Marquardt / migrad / Nelder-Mead / Powell (one contract), autograd and num_grad (one contract); '
           'data on 1-2 ensembles / replicas incl. a covariance input.',
    outside=['convergence and accuracy of the minimisers', 'estimated (not supplied) correlation matrices: decided compositionally - here the wiring (covariance(y in residual order, correlation=True), inverrdiag = diag(1/dy), the returned factor used as W^(1/2)), in C06 covariance() and invert_corr_cov_cholesky (n = 2) themselves; an end-to-end query through the Cholesky factor of a symbolic matrix is not run', 'expected_chisquare (pinv)', 'plots',
             'p-value numerics (cdf uninterpreted; its arguments are decided)'],
    stubs=['numpy shim', 'scipy.optimize.least_squares / minimize, iminuit.minimize -> fresh stationary point of the chi-square they are given', 'scipy.linalg.solve -> A X = B',
           'autograd / numdifftools jacobian, hessian -> dual numbers', 'scipy.stats.chi2.cdf / f.cdf uninterpreted'],
    assumptions=['y errors and prior errors positive', 'y_all[0].value + eps != 0 (the code multiplies by (y0+eps)/(y0+eps))'],
)
