"""C19 Printed value(error) strings and scalar views agree with value and error."""
import re
from fractions import Fraction

import numpy as np
import z3

from symx import core, lib
from symx.core import SV, SB, Ctx, tz, RV

PROPERTY = 'C19'
OPTS = dict(timeout=60000, maxpaths=400)
MODS = ('pyerrors.obs', 'pyerrors.covobs', 'pyerrors.fits', 'pyerrors.correlators')

TI = chr(0xE000)     # integer-part token marker (followed by the token id character)
TF = chr(0xE001)     # one fraction digit


def install(cx, emin, emax):
    """decimal formatting contract: format(x, '.kf') is the decimal with k fraction digits nearest to x (ties: either neighbour), with
    a leading '-' iff x < 0; the digits are opaque tokens bound to an integer n with |x 10^k - n| <= 1/2. float() of such a string returns n / 10^k.
    floor(log10(d)) is the integer e with 10^e <= d < 10^(e+1), decided by case split over [emin, emax]."""
    import pyerrors.obs as O
    import pyerrors.fits as F
    lib.sym_env(cx, *MODS)
    if cx.mode != 'sym':
        return None
    toks = {}
    memo = {}

    def sv_format(self, spec):
        m = re.fullmatch(r'([+ ]?)(\d*)\.(\d+)f', spec)
        if not m:
            raise core.Realize('format spec %r' % spec)
        k = int(m.group(3))
        t = z3.simplify(self.t)
        key = (t.get_id(), k)
        if key not in memo:
            cx.keep.append(t)
            cx.fresh += 1
            n = z3.Int('dig!%d' % cx.fresh)
            sc = t * (10 ** k)
            a = z3.If(sc >= 0, sc, -sc)
            cx.pc.append(z3.And(n >= 0, 2 * (a - z3.ToReal(n)) <= 1, 2 * (z3.ToReal(n) - a) <= 1))
            tid = len(toks)
            toks[tid] = (n, k, t)
            memo[key] = tid
        tid = memo[key]
        neg = bool(SB(t < 0))
        body = TI + chr(0xE100 + tid) + ('.' + TF * k if k > 0 else '')
        sign = '-' if neg else m.group(1)
        return sign + body
    cx.patch(SV, '__format__', sv_format)

    def symfloat(x):
        if isinstance(x, str) and TI in x:
            body = x.strip()
            neg = body.startswith('-')
            tid = ord(body[body.index(TI) + 1]) - 0xE100
            n, k, t = toks[tid]
            v = SV(z3.ToReal(n) / (10 ** k))
            return -v if neg else v
        return float(x)
    cx.patch(F, 'float', symfloat)
    shim = vars(O)['np']

    def log10(x):
        if isinstance(x, SV):
            return ('log10', x)
        return np.log10(x)

    def floor(x):
        if isinstance(x, tuple) and x[0] == 'log10':
            d = x[1]
            for e in range(emin, emax + 1):
                lo = (d.t >= 10 ** e) if e >= 0 else (d.t * 10 ** (-e) >= 1)
                hi = (d.t < 10 ** (e + 1)) if e + 1 >= 0 else (d.t * 10 ** (-(e + 1)) < 1)
                if bool(SB(z3.And(lo, hi))):
                    return float(e)
            raise core.Infeasible()
        return np.floor(x)
    from symx.npshim import NPShim
    oshim = NPShim()
    oshim.__dict__['log10'] = log10
    oshim.__dict__['floor'] = floor
    cx.patch(O, 'np', oshim)
    return toks


def _mk(cx, emin, emax, prefix=''):
    import pyerrors as pe
    v = cx.real(prefix + 'v')
    d = cx.real(prefix + 'd')
    if cx.mode == 'sym':
        lo = (d >= 10 ** emin) if emin >= 0 else (d * 10 ** (-emin) >= 1)
        hi = (d < 10 ** (emax + 1)) if emax + 1 >= 0 else (d * 10 ** (-(emax + 1)) < 1)
        cx.assume_all([lo, hi])
    elif not (10.0 ** emin <= d < 10.0 ** (emax + 1)):
        d = abs(d) * 10.0 ** ((emin + emax) // 2) + 10.0 ** emin      # generic default value: move it into the range
    o = pe.Obs([np.array([1.0, 2.0, 3.0, 4.0, 6.0])], ['e|r1'])
    o._value = v
    o._dvalue = d
    return o, v, d


def _decimals(s):
    """number of fraction digits of the value part and of the error part of 'value(error)'"""
    val, err = s.split('(')
    err = err[:-1]

    def dec(p):
        if '.' not in p:
            return 0
        return len(p.partition('.')[2])
    return dec(val), dec(err), val, err


def h_format(cx, sig, emin, emax):
    import pyerrors as pe
    import pyerrors.fits as F
    toks = install(cx, emin, emax)
    o, v, d = _mk(cx, emin, emax)
    s = format(o, str(sig)) if sig != 2 else str(o)
    kv, ke, vpart, epart = _decimals(s)
    val, err = F._extract_val_and_dval(s)
    unit = Fraction(1, 10 ** kv)
    if cx.mode == 'conc':
        unit = float(unit) * (1 + 1e-9)      # exact ties are decided by the binary representation of the double (outside the real-number claim)
    # value and error are recovered within half a unit of the last printed digit (the last decimal place of the value)
    cx.prove(core.And(val - v <= unit / 2, v - val <= unit / 2), 'value within half a unit of the last printed digit')
    cx.prove(core.And(err - d <= unit / 2, d - err <= unit / 2), 'error within half a unit of the last printed digit')
    # the error is shown with `sig` significant digits: unit = 10^(floor(log10 d) - sig + 1) whenever that is <= 1
    if cx.mode == 'sym':
        cx.prove(core.Or(core.And(d >= unit * 10 ** (sig - 1), d < unit * 10 ** sig), kv == 0), 'error printed with the requested number of significant digits')
    else:
        cx.prove((unit * 10 ** (sig - 1) <= d < unit * 10 ** sig) or kv == 0, 'error printed with the requested number of significant digits')
    # flags only affect the leading character
    base = format(o, str(sig))
    for flag in ('+', ' '):
        fs = format(o, flag + str(sig))
        if base.startswith('-'):
            cx.expect(fs == base, 'flag %r leaves a negative value unchanged' % flag, '%r vs %r' % (fs, base))
        else:
            cx.expect(fs == flag + base, 'flag %r only prepends the character' % flag, '%r vs %r' % (fs, base))
    if sig == 2:
        # two significant digits are the default: a flag without a number only adds the leading character to the default form
        for flag in ('+', ' '):
            try:
                fs = format(o, flag)
            except ValueError as e:
                cx.fail('flag %r without a significance is rejected' % flag, '%s: %s' % (type(e).__name__, e))
                continue
            cx.expect(fs == format(o, flag + '2'), 'flag %r alone = flag with the default significance' % flag, '%r' % fs)
    cx.expect(repr(o) == 'Obs[' + str(o) + ']', 'repr')
    # the string is accepted as a prior with exactly the parsed value and error
    if cx.mode == 'conc':
        p = F._construct_prior_obs(s, 0)
        cx.prove_eq(p.value, val, 'prior value = parsed value')
        cx.prove_eq(p.covobs[p.cov_names[0]].errsq(), err * err, 'prior error^2 = parsed error^2')
    else:
        # the prior is cov_Obs(parsed value, parsed error^2): with symbolic tokens only the parser is exercised here; the construction
        # itself is decided on concrete strings in harness prior_strings
        cx.ok('prior construction covered by prior_strings')


def h_noerror(cx):
    """an observable without error prints as its plain value"""
    import pyerrors as pe
    lib.sym_env(cx, *MODS)
    o = pe.Obs([np.array([1.0, 2.0, 3.0, 4.0, 6.0])], ['e|r1'])
    cx.expect(str(o) == str(o.value) and format(o, '') == str(o.value), 'plain value', str(o))
    v = cx.real('v')
    o._value = v
    cx.expect(str(o) == str(v), 'plain value (symbolic)')


def h_cobs(cx, sig, emin, emax):
    import pyerrors as pe
    install(cx, emin, emax)
    a, va, da = _mk(cx, emin, emax, 'a')
    b, vb, db = _mk(cx, emin, emax, 'b')
    z = pe.CObs(a, b)
    s = str(z)
    sa, sb = str(a), str(b)
    bneg = bool(vb < 0)
    cx.expect(s == '(' + sa + ('' if bneg else '+') + sb + 'j)', 'str(CObs) shows both parts', s)
    f = format(z, str(sig)) if sig != 2 else format(z, '')
    fa = format(a, str(sig))
    fb = format(b, '+' + str(sig))
    cx.expect(f == '(' + fa + fb + 'j)', 'format(CObs) shows both parts', f)
    cx.expect(repr(z) == 'CObs[' + s + ']', 'repr(CObs)')
    # sign / padding flags, with and without a significance: they only add the leading character of the real part
    for flag in ('+', ' '):
        for spec, digits in ((flag + str(sig), str(sig)), (flag, '2')):
            ff = format(z, spec)
            cx.expect(ff == '(' + format(a, flag + digits) + format(b, '+' + digits) + 'j)', 'format(CObs, %r) = flagged real part, signed imaginary part' % spec, ff)


def h_views(cx):
    """ordering comparisons, the n-sigma test and Corr.plottable use exactly the central values and errors"""
    import pyerrors as pe
    lib.sym_env(cx, *MODS)
    o, v, d = _mk(cx, -3, 3)
    x = cx.real('x')
    for name, got, want in (('lt', o < x, v < x), ('le', o <= x, v <= x), ('gt', o > x, v > x), ('ge', o >= x, v >= x)):
        if cx.mode == 'sym':
            cx.prove(got.t == want.t if isinstance(got, SB) else bool(got) == bool(want), 'comparison %s uses the value' % name)
        else:
            cx.prove(bool(got) == bool(want), 'comparison %s uses the value' % name)
    for sigma in (1, 3):
        r = o.is_zero_within_error(sigma)
        if cx.mode == 'sym':
            want = abs(v) <= sigma * d
            # the observable's fluctuations are non-zero, so is_zero() is False and the result is the n-sigma test
            cx.prove(want if r else core.Not(want), 'is_zero_within_error(%d) <=> |value| <= %d dvalue' % (sigma, sigma))
        else:
            cx.prove(bool(r) == (abs(v) <= sigma * d), 'is_zero_within_error(%d)' % sigma)
    o2, v2, d2 = _mk(cx, -3, 3, 'b')
    c = pe.Corr([o, None, o2])
    xs, ys, es = c.plottable()
    cx.expect(list(xs) == [0, 2], 'plottable:x')
    cx.prove_eq(list(ys), [v, v2], 'plottable:y = values')
    cx.prove_eq(list(es), [d, d2], 'plottable:yerr = dvalues')
    # entries with an integer-typed central value (covariance-defined reference numbers) in front of ordinary ones
    ci = pe.cov_Obs([1, 0.52, 0.27], np.diag([0.0001, 0.0004, 0.0009]), 'ref')
    for q in ci:
        q.gamma_method()
    c2 = pe.Corr([ci[0], None, ci[1], ci[2]])
    xs, ys, es = c2.plottable()
    cx.expect(list(xs) == [0, 2, 3], 'plottable(integer first):x')
    cx.prove_eq(list(ys), [1, 0.52, 0.27], 'plottable(integer first):y = values')
    cx.prove_eq(list(es), [0.01, 0.02, 0.03], 'plottable(integer first):yerr = dvalues')
    if cx.mode == 'conc':
        cx.prove_eq(float(o), v, 'float(obs)')


def h_prior_strings(cx):
    """concrete prior strings: exactly the printed value and error"""
    import pyerrors.fits as F
    lib.sym_env(cx, *MODS)
    for s, v, e in (('0.548(23)', Fraction(548, 1000), Fraction(23, 1000)), ('1.5(3)', Fraction(3, 2), Fraction(3, 10)), ('12(4)', 12, 4), ('-0.0120(15)', Fraction(-12, 1000), Fraction(15, 10000)),
                    ('153.2(1.7)', Fraction(1532, 10), Fraction(17, 10)), ('1500(120)', 1500, 120), ('0.10(5)', Fraction(1, 10), Fraction(5, 100)), ('3.00(10)', 3, Fraction(1, 10))):
        val, err = F._extract_val_and_dval(s)
        cx.prove_eq(val, v, 'value of %s' % s)
        cx.prove_eq(err, e, 'error of %s' % s)
        p = F._construct_prior_obs(s, 1)
        p.gamma_method()
        cx.prove_eq(p.value, v, 'prior value of %s' % s)
        cx.prove_eq(p.dvalue * p.dvalue, e * e, 'prior error of %s' % s)


HARNESSES = dict(format=h_format, noerror=h_noerror, cobs=h_cobs, views=h_views, prior_strings=h_prior_strings)


def jobs(tier, seed):
    J = []

    def add(h, **p):
        J.append(dict(harness=h, params=p))
    sigs = (1, 2, 3) if tier == 'quick' else (1, 2, 3, 4, 5, 6)
    rng = [(-6, -4), (-3, -1), (0, 0), (1, 2), (3, 5)] if tier == 'quick' else [(-8, -6), (-5, -3), (-2, -1), (0, 0), (1, 2), (3, 5), (6, 8)]
    for sig in sigs:
        for lo, hi in rng:
            add('format', sig=sig, emin=lo, emax=hi)
    add('noerror')
    add('cobs', sig=2, emin=-2, emax=1)
    add('cobs', sig=3, emin=-1, emax=0)
    add('views')
    add('prior_strings')
    return J


def apply_canary(name):
    from symx.mutate import mutate
    if name == 'digit-count':
        return mutate('pyerrors.obs', '_format_uncertainty', "dvalue * 10 ** (-fexp + significance - 1), form='.' + str(-int(fexp) + significance - 1) + 'f')", "dvalue * 10 ** (-fexp + significance - 1), form='.' + str(-int(fexp) + significance) + 'f')")
    if name == 'prior-factor':
        return mutate('pyerrors.fits', '_extract_val_and_dval', "factor = 10 ** -len(split_string[0].partition('.')[2])", "factor = 10 ** -(len(split_string[0].partition('.')[2]) - 1)")
    if name == 'sigma-test':
        return mutate('pyerrors.obs', 'Obs.is_zero_within_error', 'np.abs(self.value) <= sigma * self._dvalue', 'np.abs(self.value) <= self._dvalue')
    raise KeyError(name)


def _cj(h, **p):
    return lambda tier, seed: [dict(harness=h, params=p)]


CANARIES = [
    dict(name='digit-count', what='one decimal too many for the value when the error is < 1', quick=True, jobs=_cj('format', sig=2, emin=-3, emax=-1)),
    dict(name='prior-factor', what='factor of the error in the prior parser', jobs=_cj('format', sig=2, emin=-3, emax=-1)),
    dict(name='sigma-test', what='sigma ignored in is_zero_within_error', jobs=_cj('views')),
]

META = dict(
    explanation='C19: _format_uncertainty, Obs.__str__/__repr__/__format__, CObs.__str__/__format__, _extract_val_and_dval and _construct_prior_obs run on a symbolic value and a symbolic positive '
                'error. Formatting is replaced by its decimal-rounding contract: the digits are opaque tokens bound to an integer n with |x 10^k - n| <= 1/2 (ties: either neighbour), the sign character is '
                'decided by a path split, and float() maps such strings back to n/10^k; floor(log10 d) is a case split over the stated exponent range. Decided: value and error read back within half a unit '
                'of the last printed digit, the error carries the requested number of significant digits, flags only prepend their character, CObs prints both parts, prior observables carry exactly the parsed '
                'value and error; comparisons, the n-sigma test and Corr.plottable use exactly value and dvalue.',
    bounds='errors with floor(log10 d) in [-6,5] (thorough [-8,8]) and any real value; significance 1..3 (thorough 1..6); flags "", "+", " "; 8 concrete prior strings.',
    outside=['libm log10 near powers of ten, binary rounding of dvalue*10^k and double rounding inside printf (the claim is over the reals)'],
    stubs=['format(x, ".kf") -> decimal rounding contract with token digits', 'float(str) on token strings', 'floor(log10(d)) -> case split'],
    assumptions=['error positive and inside the exponent range'],
)
