"""C08 Non-linear and total least-squares fits obey the implicit-function rule (under the library contracts)."""
import numpy as np

from symx import core, lib, dual
from symx.core import SV, fn
from props import fitlib

PROPERTY = 'C08'
OPTS = dict(timeout=120000, maxpaths=40, abs_scale=1e-6, job_timeout=900)
# concrete replay: the real minimisers (ODRPACK, MINUIT, Nelder-Mead) only converge to about 1e-5 relative; a seeded / genuine defect in the
# sensitivities is O(1). Comparisons that depend on the minimiser's convergence use this tolerance in replay mode.
CONC_TOL = 5e-3


def _models(cx):
    import autograd.numpy as anp
    return {
        'exp': (2, lambda a, x: a[0] * anp.exp(-a[1] * x)),
        'cosh': (2, lambda a, x: a[0] * anp.cosh(a[1] * (x - 2.0))),
        'rational': (2, lambda a, x: a[0] / (1 + a[1] * x)),
        'exp2d': (3, lambda a, x: a[0] * anp.exp(-a[1] * x[0]) + a[2] * x[1]),
        'power': (2, lambda a, x: a[0] * x * x + a[1] * a[1] * x),
        'line': (2, lambda a, x: a[0] + a[1] * x),
        'plane2': (2, lambda a, x: a[0] * x[0] + a[1] * x[0] * x[1]),
    }


def h_nonlin(cx, model, xs, ylay, priors=None, correlated=False, method=None, num_grad=False, minfail=False):
    import pyerrors as pe
    rec = fitlib.install(cx, {}, minfail=minfail)
    n_parms, f = _models(cx)[model]
    yobs, Y = fitlib.mk_data(cx, 'y', ylay)
    npts = len(Y)
    dY = [o.dvalue for o in yobs]
    xarr = np.array(xs, dtype=float)
    kw = dict(silent=True)
    prows = []
    if priors:
        pa = {}
        for pos, lay in priors.items():
            (o,), (s,) = fitlib.mk_data(cx, 'prior%s' % pos, [lay])
            pa[int(pos)] = o
            prows.append((int(pos), s, o.dvalue))
        kw['priors'] = pa
    L = None
    if correlated:
        if cx.mode == 'sym':
            L = np.zeros((npts, npts), dtype=object)
            for i in range(npts):
                for j in range(i + 1):
                    L[i, j] = cx.real('L_%d_%d' % (i, j))
                cx.assume(L[i, i] > 0)
        else:
            L = np.zeros((npts, npts))
            for i in range(npts):
                for j in range(i + 1):
                    L[i, j] = cx.real('L_%d_%d' % (i, j)) * (0.2 if i != j else 1.0)
                L[i, i] = abs(L[i, i]) + 0.5
        kw['correlated_fit'] = True
        kw['inv_chol_cov_matrix'] = [L, ['']]
    if method:
        kw['method'] = method
    if num_grad:
        kw['num_grad'] = True
    out = fitlib.guarded_fit(cx, rec, lambda: pe.least_squares(xarr, yobs, f, **kw))
    if out is None:
        return
    res = out.fit_parameters
    cx.expect(len(res) == n_parms, 'number of parameters')

    def chi2(p, y, pr):
        """the documented chi-square, written independently of the library's closures"""
        model_ = np.asarray(f(np.asarray(p, dtype=object), xarr), dtype=object).reshape(-1)
        resid = [y[i] - model_[i] for i in range(npts)]
        if L is None:
            c2 = sum((r / d) * (r / d) for r, d in zip(resid, dY))
        else:
            c2 = sum(sum(L[a, i] * resid[i] for i in range(a + 1)) ** 2 for a in range(npts))
        for k, (pos, ps, perr) in enumerate(prows):
            c2 = c2 + ((p[pos] - pr[k]) / perr) * ((p[pos] - pr[k]) / perr)
        return c2
    yv = [s.value for s in Y]
    pv = [ps.value for _, ps, _ in prows]
    datas = Y + [ps for _, ps, _ in prows]
    comps, idl = fitlib.components(datas)
    rcomps = fitlib.res_components(res, idl, datas)
    cx.expect(out.dof == npts - n_parms + len(prows), 'dof', str(out.dof))
    if cx.mode == 'sym':
        last = rec['minimise'][-1]
        p = list(last['x'])
        pstar = [cx.real('pstar%d' % l) for l in range(n_parms)]
        cx.prove_eq(last['fun'](np.array(pstar, dtype=object)), chi2(pstar, yv, pv), '(D) minimised function = documented chi-square at arbitrary p', use_facts=False)
        for l in range(n_parms):
            cx.prove_eq(res[l].value, p[l], '(V) parameter value = stationary point[%d]' % l, use_facts=False)
        cx.prove_eq(out.chisquare, chi2(p, yv, pv), 'chisquare = chi-square at the solution', use_facts=False)
        solves = getattr(cx, 'solves', [])
        if not cx.expect(len(solves) == 1, 'exactly one linear solve'):
            return
        H, M, X = solves[0]
        nd = npts + len(prows)
        if not cx.expect(H.shape == (n_parms, n_parms) and M.shape == (n_parms, nd), 'shapes of H and M', '%s %s' % (H.shape, M.shape)):
            return
        # (A) H = Hessian of the documented chi-square w.r.t. the parameters at the stationary point
        Hs = dual.hessian(lambda q: chi2(list(q), yv, pv))(np.array(p, dtype=object))
        for j in range(n_parms):
            for l in range(n_parms):
                cx.prove_eq(H[j, l], Hs[j, l], '(A) H[%d,%d] = d2 chi2 / dp dp' % (j, l), use_facts=False)
        # (B) M = d(grad_p chi2)/d(data) at the stationary point, data = (y, priors) in that order
        grad_p = lambda d: dual.jacobian(lambda q: chi2(list(q), list(d[:npts]), list(d[npts:])))(np.array(p, dtype=object))
        Ms = dual.jacobian(grad_p)(np.array(yv + pv, dtype=object))
        for j in range(n_parms):
            for k in range(nd):
                cx.prove_eq(M[j, k], Ms[j, k], '(B) M[%d,%d] = d2 chi2 / dp d data' % (j, k), use_facts=False)
        # (C) wiring of the sensitivities -X = -H^-1 M into the fluctuations
        for (lab, dcomp), (_, rcomp) in zip(comps, rcomps):
            if any(v is None for v in rcomp):
                cx.fail('parameter lacks %s' % lab)
                continue
            for l in range(n_parms):
                cx.prove_eq(rcomp[l], -sum(X[l, k] * dcomp[k] for k in range(nd)), '(C) d p_%d = -sum_k X[%d,k] d data_k  %s' % (l, l, lab), use_facts=False)
    else:
        # concrete replay: stationarity and the implicit-function rule, numerically
        p = [r.value for r in res]
        g = dual.jacobian(lambda q: chi2(list(q), yv, pv))(np.array(p, dtype=object))
        scale = max(1.0, float(chi2(p, yv, pv)))
        for j in range(n_parms):
            cx.prove(abs(float(g[j]) / scale) <= CONC_TOL, 'stationary point[%d]' % j)
        Hs = np.array(dual.hessian(lambda q: chi2(list(q), yv, pv))(np.array(p, dtype=object)), dtype=float)
        grad_p = lambda d: dual.jacobian(lambda q: chi2(list(q), list(d[:npts]), list(d[npts:])))(np.array(p, dtype=object))
        Ms = np.array(dual.jacobian(grad_p)(np.array(yv + pv, dtype=object)), dtype=float)
        for (lab, dcomp), (_, rcomp) in zip(comps, rcomps):
            lhs = Hs @ np.array(rcomp, dtype=float) + Ms @ np.array(dcomp, dtype=float)
            nrm = np.abs(Ms @ np.array(dcomp, dtype=float)).max() + 1e-12
            for j in range(n_parms):
                cx.prove(abs(lhs[j] / nrm) <= CONC_TOL, 'implicit-function rule[%d] %s' % (j, lab))


def h_tls(cx, model, xlay, ylay, xdim=1, minfail=False):
    """total least squares: ODR contract = stationary point of the documented chi-square incl. the x-residual term"""
    import pyerrors as pe
    rec = fitlib.install(cx, {}, minfail=minfail)
    n_parms, f = _models(cx)[model]
    xobs, Xs = fitlib.mk_data(cx, 'x', xlay)
    yobs, Ys = fitlib.mk_data(cx, 'y', ylay)
    m = len(Xs)
    npts = len(Ys)
    dX = [o.dvalue for o in xobs]
    dY = [o.dvalue for o in yobs]
    xarg = xobs if xdim == 1 else [xobs[k * npts:(k + 1) * npts] for k in range(xdim)]     # row-major: x.ravel() is the flat list
    out = fitlib.guarded_fit(cx, rec, lambda: pe.total_least_squares(xarg, yobs, f, silent=True))
    if out is None:
        return
    res = out.fit_parameters
    cx.expect(len(res) == n_parms, 'number of parameters')
    cx.expect(out.dof == npts - n_parms, 'dof', str(out.dof))
    xv = [s.value for s in Xs]
    yv = [s.value for s in Ys]

    def chi2(q, x, y):
        beta, xi = list(q[:n_parms]), list(q[n_parms:])
        xs_ = np.asarray(xi, dtype=object) if xdim == 1 else np.asarray(xi, dtype=object).reshape(xdim, npts)
        model_ = np.asarray(f(np.asarray(beta, dtype=object), xs_), dtype=object).reshape(-1)
        return sum(((y[i] - model_[i]) / dY[i]) * ((y[i] - model_[i]) / dY[i]) for i in range(npts)) + \
            sum(((x[i] - xi[i]) / dX[i]) * ((x[i] - xi[i]) / dX[i]) for i in range(m))
    datas = Xs + Ys
    comps, idl = fitlib.components(datas)
    rcomps = fitlib.res_components(res, idl, datas)
    if cx.mode == 'sym':
        q = list(cx.fit_points[-1])
        for l in range(n_parms):
            cx.prove_eq(res[l].value, q[l], '(V) parameter value = ODR beta[%d]' % l, use_facts=False)
        cx.prove_eq(out.odr_chisquare, chi2(q, xv, yv), 'odr_chisquare = documented chi-square at the solution', use_facts=False)
        solves = getattr(cx, 'solves', [])
        if not cx.expect(len(solves) == 2, 'two linear solves (x block, y block)', str(len(solves))):
            return
        (H1, Mx, Xx), (H2, My, Xy) = solves
        nq = n_parms + m
        if not cx.expect(H1.shape == (nq, nq) and H2.shape == (nq, nq) and Mx.shape == (nq, m) and My.shape == (nq, npts),
                         'the full Hessian and the full mixed-derivative blocks are handed to the linear solver', '%s %s %s %s' % (H1.shape, H2.shape, Mx.shape, My.shape)):
            return
        Hs = dual.hessian(lambda z: chi2(list(z), xv, yv))(np.array(q, dtype=object))
        for j in range(nq):
            for l in range(nq):
                cx.prove_eq(H1[j, l], Hs[j, l], '(A) H[%d,%d] (x solve)' % (j, l), use_facts=False)
                cx.prove_eq(H2[j, l], Hs[j, l], '(A) H[%d,%d] (y solve)' % (j, l), use_facts=False)
        gq_x = lambda d: dual.jacobian(lambda z: chi2(list(z), list(d), yv))(np.array(q, dtype=object))
        gq_y = lambda d: dual.jacobian(lambda z: chi2(list(z), xv, list(d)))(np.array(q, dtype=object))
        Msx = dual.jacobian(gq_x)(np.array(xv, dtype=object))
        Msy = dual.jacobian(gq_y)(np.array(yv, dtype=object))
        for j in range(nq):
            for k in range(m):
                cx.prove_eq(Mx[j, k], Msx[j, k], '(B) Mx[%d,%d] = d2 chi2 / dq dx' % (j, k), use_facts=False)
            for k in range(npts):
                cx.prove_eq(My[j, k], Msy[j, k], '(B) My[%d,%d] = d2 chi2 / dq dy' % (j, k), use_facts=False)
        for (lab, dcomp), (_, rcomp) in zip(comps, rcomps):
            if any(v is None for v in rcomp):
                cx.fail('parameter lacks %s' % lab)
                continue
            for l in range(n_parms):
                want = -sum(Xx[l, k] * dcomp[k] for k in range(m)) - sum(Xy[l, k] * dcomp[m + k] for k in range(npts))
                cx.prove_eq(rcomp[l], want, '(C) d p_%d = -Xx dx - Xy dy  %s' % (l, lab), use_facts=False)
        if cx.mode == 'sym':
            calls = rec.get('cdf', [])
            cx.expect(len(calls) == 1 and calls[0][2] == out.dof, 'p-value from chi2.cdf(odr_chisquare, dof)')
    else:
        # numerically: (beta, xplus) stationary and the rule H dq + Mx dx + My dy = 0 restricted to the beta rows via elimination
        beta = [r.value for r in res]
        xi = list(np.asarray(out.xplus, dtype=float).ravel())
        q = beta + xi
        g = dual.jacobian(lambda z: chi2(list(z), xv, yv))(np.array(q, dtype=object))
        scale = max(1.0, float(chi2(q, xv, yv)))
        for j in range(len(q)):
            cx.prove(abs(float(g[j]) / scale) <= CONC_TOL, 'stationary point[%d]' % j)
        Hs = np.array(dual.hessian(lambda z: chi2(list(z), xv, yv))(np.array(q, dtype=object)), dtype=float)
        gq_x = lambda d: dual.jacobian(lambda z: chi2(list(z), list(d), yv))(np.array(q, dtype=object))
        gq_y = lambda d: dual.jacobian(lambda z: chi2(list(z), xv, list(d)))(np.array(q, dtype=object))
        Msx = np.array(dual.jacobian(gq_x)(np.array(xv, dtype=object)), dtype=float)
        Msy = np.array(dual.jacobian(gq_y)(np.array(yv, dtype=object)), dtype=float)
        S = -np.linalg.solve(Hs, np.concatenate([Msx, Msy], axis=1))
        for (lab, dcomp), (_, rcomp) in zip(comps, rcomps):
            pred = S[:n_parms] @ np.array(dcomp, dtype=float)
            nrm = np.abs(pred).max() + 1e-12
            for l in range(n_parms):
                cx.prove(abs((rcomp[l] - pred[l]) / nrm) <= CONC_TOL, 'implicit-function rule[%d] %s' % (l, lab))


def h_fit_lin(cx, xkind):
    """fit_lin dispatches to total_least_squares for observable x and to least_squares for plain numbers"""
    import pyerrors as pe
    import pyerrors.fits as F
    rec = fitlib.install(cx, {})
    E = {'e|r1': [1, 2, 3, 4, 5]}
    yobs, Ys = fitlib.mk_data(cx, 'y', [E, E, E])
    called = []
    cx.patch(F, 'total_least_squares', lambda *a, **k: called.append('tls') or type('R', (), {'fit_parameters': ['tls']})())
    cx.patch(F, 'least_squares', lambda *a, **k: called.append('ls') or type('R', (), {'fit_parameters': ['ls']})())
    if xkind == 'obs':
        xobs, _ = fitlib.mk_data(cx, 'x', [E, E, E])
        r = F.fit_lin(xobs, yobs)
        cx.expect(called == ['tls'] and r == ['tls'], 'observable x -> total_least_squares', str(called))
    elif xkind == 'float':
        r = F.fit_lin([1.0, 2.0, 3], yobs)
        cx.expect(called == ['ls'] and r == ['ls'], 'plain x -> least_squares', str(called))
    else:
        try:
            F.fit_lin([1.0, yobs[0], 3.0], yobs)
        except TypeError:
            cx.ok('mixed x rejected')
        else:
            cx.fail('mixed x accepted')


HARNESSES = dict(nonlin=h_nonlin, tls=h_tls, fit_lin=h_fit_lin)


def jobs(tier, seed):
    J = []

    def add(h, **p):
        J.append(dict(harness=h, params=p))
    E = {'e|r1': [1, 2, 3, 4, 5]}
    Ei = {'e|r1': [1, 2, 4, 5, 6]}
    F_ = {'f|r1': [2, 4, 6, 8, 10]}
    CV = ('cov', 'cv', 2)
    add('nonlin', model='exp', xs=[0.5, 1.0, 2.0], ylay=[E, E, E])
    add('nonlin', model='exp', xs=[0.5, 1.0, 2.0, 3.0], ylay=[E, F_, Ei, CV])
    add('nonlin', model='cosh', xs=[0.0, 1.0, 3.0], ylay=[E, E, F_])
    add('nonlin', model='rational', xs=[0.5, 1.0, 2.0], ylay=[E, Ei, E])
    add('nonlin', model='power', xs=[0.5, 1.0, 2.0], ylay=[E, E, E])
    add('nonlin', model='exp2d', xs=[[0.5, 1.0, 2.0, 3.0], [1.0, -1.0, 0.5, 2.0]], ylay=[E, E, F_, E])
    add('nonlin', model='exp', xs=[0.5, 1.0, 2.0], ylay=[E, E, E], priors={'1': F_})
    add('nonlin', model='rational', xs=[0.5, 1.0, 2.0], ylay=[E, E, F_], priors={'0': E, '1': F_})
    add('nonlin', model='exp', xs=[0.5, 1.0, 2.0], ylay=[E, E, E], correlated=True)
    add('nonlin', model='exp', xs=[0.5, 1.0, 2.0], ylay=[E, E, E], correlated=True, priors={'1': F_})
    add('nonlin', model='rational', xs=[0.5, 1.0, 2.0], ylay=[E, E, F_], correlated=True, priors={'1': E, '0': F_})
    add('nonlin', model='exp', xs=[0.5, 1.0, 2.0], ylay=[E, E, F_], method='migrad')
    add('nonlin', model='cosh', xs=[0.0, 1.0, 3.0], ylay=[E, E, F_], method='Nelder-Mead')
    add('nonlin', model='exp', xs=[0.5, 1.0, 2.0], ylay=[E, E, F_], num_grad=True)
    # every minimiser family with the correlated chi-square (the second minimisation must be handed the correlated function)
    add('nonlin', model='exp', xs=[0.5, 1.0, 2.0], ylay=[E, E, E], correlated=True, method='Nelder-Mead')
    add('nonlin', model='rational', xs=[0.5, 1.0, 2.0], ylay=[E, E, Ei], correlated=True, method='Powell')
    add('nonlin', model='cosh', xs=[0.0, 1.0, 3.0], ylay=[E, E, E], correlated=True, method='migrad')
    add('tls', model='line', xlay=[E, E, E], ylay=[E, E, E])
    # the minimiser contract including its failure mode: a fit that did not converge must raise, never return a point that is not stationary
    add('tls', model='exp', xlay=[E, E, E], ylay=[E, F_, E], minfail=True)
    add('nonlin', model='exp', xs=[0.5, 1.0, 2.0], ylay=[E, E, E], minfail=True)
    add('nonlin', model='cosh', xs=[0.0, 1.0, 3.0], ylay=[E, E, F_], method='Nelder-Mead', minfail=True)
    add('nonlin', model='exp', xs=[0.5, 1.0, 2.0], ylay=[E, E, F_], method='migrad', minfail=True)
    add('tls', model='line', xlay=[E, F_, Ei], ylay=[F_, E, CV])
    add('tls', model='exp', xlay=[E, E, E], ylay=[E, F_, E])
    add('tls', model='rational', xlay=[E, F_, E], ylay=[E, E, F_])
    add('tls', model='exp2d', xlay=[E, E, E, F_, Ei, E], ylay=[E, F_, E], xdim=2)
    add('tls', model='plane2', xlay=[E, F_, E, Ei, E, F_], ylay=[E, E, F_], xdim=2)
    if tier == 'thorough':
        add('tls', model='exp', xlay=[E, E, F_, Ei], ylay=[E, F_, E, E])
        add('nonlin', model='cosh', xs=[0.0, 1.0, 3.0, 4.0], ylay=[E, E, F_, Ei], correlated=True)
        add('nonlin', model='exp2d', xs=[[0.5, 1.0, 2.0, 3.0], [1.0, -1.0, 0.5, 2.0]], ylay=[E, E, F_, E], priors={'2': F_})
        # cross product of model family x data layout x priors x minimiser x chi-square kind
        import itertools
        M2 = {'e|r1': [1, 2, 3, 4, 5], 'e|r2': [1, 2, 3, 4, 5, 6]}
        for model, ys, pr, meth, co in itertools.product(('exp', 'cosh', 'rational', 'power'), ([E, E, E], [E, F_, Ei], [M2, CV, E]), (None, {'1': F_}, {'0': Ei, '1': F_}),
                                                         (None, 'migrad', 'Nelder-Mead'), (False, True)):
            kw = dict(model=model, xs=[0.5, 1.0, 2.0] if model != 'cosh' else [0.0, 1.0, 3.0], ylay=ys)
            if pr:
                kw['priors'] = pr
            if meth:
                kw['method'] = meth
            if co:
                kw['correlated'] = True
            add('nonlin', **kw)
        for model, xl, yl in itertools.product(('line', 'exp', 'rational'), ([E, E, E], [E, F_, Ei], [F_, CV, E]), ([E, E, E], [F_, E, Ei])):
            add('tls', model=model, xlay=xl, ylay=yl)
    for k in ('obs', 'float', 'mixed'):
        add('fit_lin', xkind=k)
    return J


def apply_canary(name):
    from symx.mutate import mutate
    if name == 'tls-x-block':
        return mutate('pyerrors.fits', 'total_least_squares', 'deriv_x = -scipy.linalg.solve(hess, jac_jac_x[:n_parms + m, n_parms + m:])', 'deriv_x = -scipy.linalg.solve(hess, jac_jac_x[:n_parms + m, n_parms:n_parms + m])')
    if name == 'tls-order':
        return mutate('pyerrors.fits', 'total_least_squares', 'man_grad=list(deriv_x[i]) + list(deriv_y[i])', 'man_grad=list(deriv_y[i]) + list(deriv_x[i])')
    if name == 'x-residual-sign':
        return mutate('pyerrors.fits', 'total_least_squares', '(d[n_parms + m:].reshape(x_shape) - d[n_parms:n_parms + m].reshape(x_shape)) / dx_f) ** 2)', '(d[n_parms + m:].reshape(x_shape) + d[n_parms:n_parms + m].reshape(x_shape)) / dx_f) ** 2)')
    if name == 'nonlin-hess-block':
        return mutate('pyerrors.fits', 'least_squares', 'jac_jac_y[:n_parms, n_parms:]', 'jac_jac_y[:n_parms, :-n_parms][:, -len_y - len(p_f):] if False else jac_jac_y[:n_parms, n_parms - 1:-1]')
    raise KeyError(name)


def _cj(h, **p):
    return lambda tier, seed: [dict(harness=h, params=p)]


_E = {'e|r1': [1, 2, 3, 4, 5]}
_F = {'f|r1': [2, 4, 6, 8, 10]}
CANARIES = [
    dict(name='tls-order', what='order of x and y sensitivities vs the data list', quick=True, jobs=_cj('tls', model='line', xlay=[_E, _E, _E], ylay=[_F, _F, _F])),
    dict(name='tls-x-block', what='wrong mixed-Hessian block for the x sensitivities', jobs=_cj('tls', model='line', xlay=[_E, _E, _E], ylay=[_E, _E, _E])),
    dict(name='x-residual-sign', what='sign inside the x-residual of the compact chi-square', jobs=_cj('tls', model='line', xlay=[_E, _E, _E], ylay=[_E, _E, _E])),
    dict(name='nonlin-hess-block', what='mixed-Hessian block shifted by one column', jobs=_cj('nonlin', model='exp', xs=[0.5, 1.0, 2.0], ylay=[_E, _E, _E])),
]

META = dict(
    explanation='C08: the real least_squares / total_least_squares bodies run on symbolic data for non-linear models behind the minimiser / ODR / linear-solve contracts. '
                'Decomposed obligations (DESIGN C08): (D) the function handed to the minimiser is the documented chi-square at an arbitrary point (ODR: the stub builds the documented '
                'chi-square incl. the x-residual term from the data and model it is handed); (A) every entry of the matrix handed to scipy.linalg.solve equals the Hessian of an independently '
                'written chi-square at the stationary point; (B) every entry of the right-hand sides equals the mixed second derivative w.r.t. the data (y, priors; for TLS x and y separately); '
                '(C) every fluctuation / gradient of parameter i equals -sum_k X[i,k] d(data_k) in the order the library lists the data. A, B, C and H X = M give '
                'dp = -H^-1 d(grad chi2)/d(data) d(data) by linear algebra. fit_lin dispatch; dof; chi-square values.',
    bounds='models a0 exp(-a1 x), a0 cosh(a1 (x-2)), a0/(1+a1 x), a0 x^2 + a1^2 x, a0 exp(-a1 x0) + a2 x1 and the straight line (TLS); 2-3 parameters, 3-4 points; priors on parameter '
           'subsets; symbolic inverse Cholesky factor; methods LM / migrad / Nelder-Mead, autograd and num_grad; data on 1-2 ensembles incl. a covariance input.',
    outside=['ODRPACK / MINPACK / MINUIT numerics', 'the corollary "shift one data point and re-fit" and "TLS with negligible x errors = ordinary fit" are consequences of the rule and are not run separately',
             'the final linear-algebra step is an argument, not a solver query', 'expected_chisquare'],
    stubs=['numpy shim', 'minimisers / ODR -> fresh stationary point', 'scipy.linalg.solve -> A X = B', 'autograd / numdifftools -> dual numbers (nested for Hessians)', 'exp / cosh uninterpreted with derivative rules'],
    assumptions=['errors positive', 'first data value + eps != 0'],
)
