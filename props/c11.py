"""C11 JSON serialisation round-trips losslessly and conforms to the shipped schema."""
import copy
import io
import json as pyjson
import re
import types

import numpy as np

from symx import core, lib
from symx.core import SV, SInt

PROPERTY = 'C11'
OPTS = dict(timeout=60000, maxpaths=30)
MODS = ('pyerrors.obs', 'pyerrors.covobs', 'pyerrors.correlators', 'pyerrors.misc', 'pyerrors.input.json', 'pyerrors.input.pandas')


# ------------------------------------------------------------------ rapidjson contract

class JsonStub:
    """contract of rapidjson: loads(dumps(x)) = x on the JSON data model (lists, str-keyed dicts, str, bool, null, int, finite double;
    NaN as rapidjson's default writes it), the `default=` hook is called for anything else (incl. dicts with non-string keys)"""
    WM_SINGLE_LINE_ARRAY = 1
    WM_COMPACT = 0

    def __init__(self):
        self.store = {}

    def norm(self, x, default):
        if isinstance(x, dict):
            if not all(isinstance(k, str) for k in x):
                if default is None:
                    raise TypeError('keys must be strings')
                return self.norm(default(x), default)
            return {k: self.norm(v, default) for k, v in x.items()}
        if isinstance(x, (list, tuple)):
            return [self.norm(v, default) for v in x]
        if x is None or isinstance(x, (str, bool, int, float, SV)):
            return x
        if default is None:
            raise TypeError('%r is not JSON serializable' % (x,))
        return self.norm(default(x), default)

    def dumps(self, d, indent=None, ensure_ascii=False, default=None, write_mode=None):
        key = 'JSON#%d' % len(self.store)
        self.store[key] = self.norm(d, default)
        return '{"program": "stub", "key": "%s"}' % key

    def loads(self, s):
        m = re.search(r'JSON#\d+', s if isinstance(s, str) else s.decode('utf-8'))
        if not m:
            raise ValueError('not a JSON document')
        return copy.deepcopy(self.store[m.group(0)]) if False else _deep(self.store[m.group(0)])

    def load(self, f):
        return self.loads(f.read())


def _deep(x):
    if isinstance(x, dict):
        return {k: _deep(v) for k, v in x.items()}
    if isinstance(x, list):
        return [_deep(v) for v in x]
    return x


class MemFS:
    """in-memory replacement of open / gzip.open for the transport wiring"""
    def __init__(self):
        self.files = {}

    def open(self, fname, mode='r', **kw):
        fs = self

        class F(io.BytesIO if 'b' in mode else io.StringIO):
            def close(s):
                if 'w' in mode:
                    v = s.getvalue()
                    fs.files[(fname, 'plain')] = v if isinstance(v, bytes) else v.encode('utf-8')
                super().close()

            def __exit__(s, *a):
                s.close()
        if 'w' in mode:
            return F()
        data = fs.files[(fname, 'plain')]
        return F(data if 'b' in mode else data.decode('utf-8'))

    def gzopen(self, fname, mode='rb', **kw):
        fs = self

        class F(io.BytesIO):
            def close(s):
                if 'w' in mode:
                    fs.files[(fname, 'gz')] = s.getvalue()
                super().close()

            def __exit__(s, *a):
                s.close()
        if 'w' in mode:
            return F()
        return F(fs.files[(fname, 'gz')])


def install(cx):
    import pyerrors.input.json as J
    lib.sym_env(cx, *MODS)
    fs = MemFS()
    if cx.mode == 'sym':
        stub = JsonStub()
        cx.patch(J, 'json', stub)
    cx.patch(J, 'gzip', types.SimpleNamespace(open=fs.gzopen))
    cx.patch_item(J.__dict__, 'open', fs.open) if False else cx.patch(J, 'open', fs.open)
    return fs


# ------------------------------------------------------------------ objects

def mk_rich(cx, tag, kind):
    """observables of increasing richness"""
    import pyerrors as pe
    E = {'e|r1': [1, 2, 3, 4, 5]}
    if kind == 'range':
        o, _ = lib.mk_obs(cx, tag, E)
    elif kind == 'strided':
        o, _ = lib.mk_obs(cx, tag, {'e|r1': [2, 4, 6, 8, 10, 12]})
    elif kind == 'irregular':
        o, _ = lib.mk_obs(cx, tag, {'e|r1': [1, 2, 4, 5, 7, 8]})
    elif kind == 'odd':
        o, _ = lib.mk_obs(cx, tag, {'e|r1': [1, 3, 5, 7, 9], 'e|r2': [1, 2, 3, 4, 5]})
    elif kind == 'even':
        # same stride as 'odd' on the shared replica, other offset
        o, _ = lib.mk_obs(cx, tag, {'e|r1': [2, 4, 6, 8, 10, 12], 'e|r2': [4, 6, 8, 10, 12]})
    elif kind == 'prefix':
        # one ensemble name is a prefix of the other: plain string order of the chain names ('eb|r1' < 'e|r1') differs from the ensemble-wise order; chain lengths differ
        a, _ = lib.mk_obs(cx, tag + 'a', {'e|r1': [1, 2, 3, 4, 5]})
        b, _ = lib.mk_obs(cx, tag + 'b', {'eb|r1': [2, 4, 6, 8, 10, 12]})
        o = a * b + a
    elif kind == 'rangelike':
        # irregular lists that share length, end points and first stride with a range
        o, _ = lib.mk_obs(cx, tag, {'e|r1': [1, 3, 4, 7, 9], 'e|r2': [2, 4, 5, 6, 10, 12]})
    elif kind == 'rangelike2':
        o, _ = lib.mk_obs(cx, tag, {'e|r1': [1, 3, 6, 7, 9], 'e|r2': [10, 20, 30, 35, 50]})
    elif kind == 'replicas':
        o, _ = lib.mk_obs(cx, tag, {'e|r1': [1, 2, 3, 4, 5], 'e|r2': [2, 4, 5, 7, 8]})
    elif kind == 'sep':
        # replica names without '|' separator as old files have them are reconstructed with the separator
        o, _ = lib.mk_obs(cx, tag, {'ens|r01': [1, 2, 3, 4, 5], 'ens|r02': [1, 2, 3, 4, 5, 6]})
    elif kind == 'multi':
        a, _ = lib.mk_obs(cx, tag + 'a', {'e|r1': [1, 2, 3, 4, 5], 'e|r2': [2, 4, 5, 7, 8]})
        b, _ = lib.mk_obs(cx, tag + 'b', {'f|r1': [2, 4, 6, 8, 10]})
        c, _ = lib.mk_covobs(cx, tag + 'c', 'cv', 2)
        o = a * b + c * a
    elif kind == 'cov':
        o, _ = lib.mk_covobs(cx, tag, 'cu', 3)
    elif kind == 'covmix':
        a, _ = lib.mk_obs(cx, tag + 'a', E)
        c, _ = lib.mk_covobs(cx, tag + 'c', 'cy', 1)
        d, _ = lib.mk_covobs(cx, tag + 'd', 'cw', 2)
        o = a + 2 * c - d
    elif kind in ('jack', 'jackmix'):
        # an imported jackknife estimate of a non-linear quantity: central value (first entry) differs from the replica mean of a single-replica ensemble
        jacks = np.array([cx.real('%s_j%d' % (tag, k)) for k in range(6)], dtype=object if cx.mode == 'sym' else float)
        o = pe.import_jackknife(jacks, 'e|r1')
        if kind == 'jackmix':
            b, _ = lib.mk_obs(cx, tag + 'b', {'f|r1': [2, 4, 6, 8, 10], 'f|r2': [1, 2, 3, 4, 5]})
            o = o * b + b
    elif kind == 'reweighted':
        w, _ = lib.mk_obs(cx, tag + 'w', {'e|r1': [1, 2, 3, 4, 5, 6]})
        a, _ = lib.mk_obs(cx, tag + 'a', {'e|r1': [1, 2, 3, 5, 6]})
        o = pe.reweight(w, [a])[0]
    return o


def same(cx, r, o, label):
    import pyerrors as pe
    ok = lib.check_wellformed(cx, r, label)
    ok &= lib.eq_obs(cx, r, o, label)
    if not (isinstance(r, pe.Obs) and isinstance(o, pe.Obs)):
        return ok
    cx.expect(list(r.names) == list(o.names) or sorted(r.names) == sorted(o.names), label + ':names')
    for n in o.idl:
        if n in r.idl:
            cx.expect(type(r.idl[n]) is type(o.idl[n]) and (not isinstance(o.idl[n], range) or r.idl[n] == o.idl[n]), label + ':idl-form[%s]' % n, '%r vs %r' % (r.idl.get(n), o.idl[n]))
    for cn in o.covobs:
        if cn in r.covobs:
            cx.expect(np.array_equal(np.asarray(r.covobs[cn].cov, dtype=float), np.asarray(o.covobs[cn].cov, dtype=float)), label + ':cov[%s]' % cn)
    cx.expect(r.tag == o.tag, label + ':tag', '%r vs %r' % (r.tag, o.tag))
    cx.expect(r.N == o.N and dict(r.shape) == dict(o.shape), label + ':N/shape')
    return ok


def same_struct(cx, r, o, label):
    import pyerrors as pe
    if isinstance(o, pe.Corr):
        if not cx.expect(isinstance(r, pe.Corr) and r.T == o.T and r.N == o.N, label + ':Corr-shape'):
            return
        cx.expect(r.tag == o.tag, label + ':corr-tag', '%r vs %r' % (r.tag, o.tag))
        cx.expect((r.prange is None and o.prange is None) or list(r.prange) == list(o.prange), label + ':prange', '%r vs %r' % (r.prange, o.prange))
        for t in range(o.T):
            if o.content[t] is None or r.content[t] is None:
                cx.expect(o.content[t] is None and r.content[t] is None, label + ':none[%d]' % t)
                continue
            oa, ra = np.asarray(o.content[t], dtype=object), np.asarray(r.content[t], dtype=object)
            if not cx.expect(oa.shape == ra.shape, label + ':entry-shape[%d]' % t):
                continue
            for idx in np.ndindex(oa.shape):
                same(cx, ra[idx], oa[idx], '%s[%d]%s' % (label, t, list(idx)))
    elif isinstance(o, np.ndarray):
        if not cx.expect(isinstance(r, np.ndarray) and r.shape == o.shape, label + ':array-shape', '%s' % (getattr(r, 'shape', None),)):
            return
        for idx in np.ndindex(o.shape):
            same(cx, r[idx], o[idx], '%s%s' % (label, list(idx)))
    elif isinstance(o, list):
        if not cx.expect(isinstance(r, list) and len(r) == len(o), label + ':list-length'):
            return
        for k in range(len(o)):
            same_struct(cx, r[k], o[k], '%s[%d]' % (label, k))
    elif isinstance(o, dict):
        if not cx.expect(isinstance(r, dict) and list(r) == [str(k) if not isinstance(k, str) else k for k in o] or set(r) == set(map(str, o)), label + ':dict-keys', '%s vs %s' % (list(r) if isinstance(r, dict) else r, list(o))):
            return
        for k in o:
            same_struct(cx, r[k if k in r else str(k)], o[k], '%s.%s' % (label, k))
    elif isinstance(o, pe.Obs):
        same(cx, r, o, label)
    else:
        cx.expect(r == o, label + ':plain', '%r vs %r' % (r, o))


def schema_check(cx, stub, label):
    """documents validate against the shipped schema. The schema constrains no numeric *values* (checked by scanning it), so one
    instantiation of the symbolic leaves decides it for all values (auxiliary, non-solver sub-check)."""
    import jsonschema
    with open('/repo/examples/json_schema.json') as f:
        schema = pyjson.load(f)
    txt = pyjson.dumps(schema)
    cx.expect(not any(k in txt for k in ('"minimum"', '"maximum"', '"exclusiveMinimum"', '"exclusiveMaximum"', '"multipleOf"', '"enum": [0', '"const": 0')), label + ':schema-has-no-numeric-value-constraints')

    def inst(x):
        if isinstance(x, dict):
            return {k: inst(v) for k, v in x.items()}
        if isinstance(x, list):
            return [inst(v) for v in x]
        if isinstance(x, (SV,)):
            return 1.25
        if isinstance(x, float) and x != x:
            return None if False else float('nan')
        return x
    for key, doc in stub.store.items():
        try:
            jsonschema.validate(inst(doc), schema)
            cx.ok('%s:schema[%s]' % (label, key))
        except jsonschema.ValidationError as e:
            cx.fail('%s:schema[%s]' % (label, key), str(e)[:300])


def h_obs(cx, kinds, tags):
    import pyerrors as pe
    import pyerrors.input.json as J
    install(cx)
    objs = []
    for i, (k, t) in enumerate(zip(kinds, tags)):
        o = mk_rich(cx, 'o%d' % i, k)
        o.tag = t
        objs.append(o)
    # single export of each, and all in one file
    for i, o in enumerate(objs):
        s = J.create_json_string(o, indent=i % 2)
        r = J.import_json_string(s, verbose=False)
        same(cx, r, o, 'single[%d:%s]' % (i, kinds[i]))
    s = J.create_json_string(objs, description='all of them')
    r = J.import_json_string(s, verbose=False, full_output=True)
    cx.expect(r['description'] == 'all of them', 'description')
    if cx.expect(len(r['obsdata']) == len(objs), 'count'):
        for i, o in enumerate(objs):
            same(cx, r['obsdata'][i], o, 'multi[%d:%s]' % (i, kinds[i]))
    if cx.mode == 'sym':
        schema_check(cx, J.json, 'obs')


def h_struct(cx, which):
    import pyerrors as pe
    import pyerrors.input.json as J
    fs = install(cx)
    E = {'e|r1': [1, 2, 3, 4, 5]}
    if which == 'list':
        a = mk_rich(cx, 'a', 'replicas')
        obj = [a, 2 * a, a * a]
        obj[1].tag = 'second'
    elif which == 'list-cov':
        a = mk_rich(cx, 'a', 'covmix')
        obj = [a, a * 3.0]
        obj[0].tag = {'k': [1, 2.5, None]}
    elif which in ('array', 'array-T', 'array-F', 'array-slice'):
        a = mk_rich(cx, 'a', 'irregular')
        b = mk_rich(cx, 'b', 'irregular')
        obj = np.array([[a, b], [a * b, a - b], [b, 3 * a]], dtype=object)
        obj[2, 0].tag = 7
        if which == 'array-T':
            obj = obj.T                           # a view whose memory order is not row-major
        elif which == 'array-F':
            obj = np.asfortranarray(obj)
        elif which == 'array-slice':
            obj = obj[::-1, ::-1][:2]             # reversed / strided view
    elif which in ('array-prefix', 'list-prefix', 'corr-prefix'):
        a = mk_rich(cx, 'a', 'prefix')
        b = mk_rich(cx, 'b', 'prefix')
        if which == 'array-prefix':
            obj = np.array([a, b, a * b], dtype=object)
        elif which == 'list-prefix':
            obj = [a, b - a, 2 * b]
        else:
            obj = pe.Corr([a, b, None, a + b])
    elif which == 'array3':
        a = mk_rich(cx, 'a', 'range')
        obj = np.array([[[a, 2 * a]], [[a * a, a + 1]]], dtype=object)
    elif which.startswith('corr'):
        N = 2 if 'matrix' in which else 1
        pat = [True, False, True, True] if 'none' in which else [True, True, True]
        content = []
        for t, p in enumerate(pat):
            if not p:
                content.append(None)
            elif N == 1:
                content.append(lib.mk_obs(cx, 'c%d' % t, E)[0])
            else:
                m = np.empty((2, 2), dtype=object)
                for i in range(2):
                    for j in range(2):
                        m[i, j] = lib.mk_obs(cx, 'c%d%d%d' % (t, i, j), E)[0]
                content.append(m)
        obj = pe.Corr(content, padding=[1, 1] if 'pad' in which else [0, 0], prange=[1, 2] if 'prange' in which else None)
        if 'tag' in which:
            obj.tag = 'my correlator'
    exp = [obj] if isinstance(obj, list) else obj     # a top-level list is a list of separate entries; a List structure is nested once
    s = J.create_json_string(exp)
    r = J.import_json_string(s, verbose=False)
    same_struct(cx, r, obj, which)
    # transports built on the string format: plain and gzipped files
    for gz, fname in ((True, 'mem_a'), (False, 'mem_b.json'), (True, 'mem_c.json.gz')):
        J.dump_to_json(exp, fname, description='d', gz=gz)
        r = J.load_json(fname, verbose=False, gz=gz)
        same_struct(cx, r, obj, '%s:file(gz=%s)' % (which, gz))
    if cx.mode == 'sym':
        schema_check(cx, J.json, which)


def h_dict(cx, many=False):
    import pyerrors as pe
    import pyerrors.input.json as J
    install(cx)
    a = mk_rich(cx, 'a', 'replicas')
    b = mk_rich(cx, 'b', 'strided')
    c = mk_rich(cx, 'c', 'cov')
    corr = pe.Corr([lib.mk_obs(cx, 'k%d' % t, {'e|r1': [1, 2, 3, 4, 5]})[0] for t in range(2)] + [None])
    od = {'a': a, 'nested': {'b': b, 'l': [a, a * 2], 'deep': {'c': c, 'txt': 'hello', 'num': 3, 'li': [1, 'x', {'q': corr}]}}, 'arr': np.array([b, b * b], dtype=object), 1.5: 'float key', 'none': None}
    if many:
        # more than ten observable-valued entries (two-digit placeholders), values all different
        for k in range(12):
            od['m%02d' % k] = a * (k + 2) if k % 3 else (b + k if k % 2 else pe.Corr([a * (k + 1), a + k]))
    J.dump_dict_to_json(od, 'mem_dict', description='dd', gz=True)
    r = J.load_json_dict('mem_dict', verbose=False, gz=True)
    same_struct(cx, r, od, 'dict')
    rf = J.load_json_dict('mem_dict', verbose=False, gz=True, full_output=True)
    cx.expect(rf['description'] == 'dd', 'dict:description')
    try:
        J.dump_dict_to_json({'x': 'DICTOBS3', 'a': a}, 'mem_bad')
    except Exception as e:
        if isinstance(e, core.Realize):
            raise
        cx.ok('placeholder collision rejected')
    else:
        cx.fail('placeholder collision accepted')
    if cx.mode == 'sym':
        schema_check(cx, J.json, 'dict')


def h_pandas(cx, gz):
    import pandas as pd
    import pyerrors as pe
    import pyerrors.input.pandas as P
    import pyerrors.input.json as J
    install(cx)
    if cx.mode == 'sym':
        cx.patch(P, 'create_json_string', J.create_json_string)
        cx.patch(P, 'import_json_string', J.import_json_string)
    a = mk_rich(cx, 'a', 'replicas')
    b = mk_rich(cx, 'b', 'covmix')
    corr = pe.Corr([lib.mk_obs(cx, 'k%d' % t, {'e|r1': [1, 2, 3, 4, 5]})[0] for t in range(2)])
    df = pd.DataFrame({'int': [1, 2], 'obs': [a, b], 'lst': [[a, a * 2], [a * a, a]], 'corr': [corr, corr * 2.0], 'txt': ['x', 'y']})
    ser = P._serialize_df(df, gz=gz)
    cx.expect(all(isinstance(v, (str, bytes)) for v in ser['obs']), 'serialized column is text')
    back = P._deserialize_df(ser)
    for i in range(2):
        same_struct(cx, back['obs'][i], df['obs'][i], 'df.obs[%d]' % i)
        same_struct(cx, back['lst'][i], df['lst'][i], 'df.lst[%d]' % i)
        same_struct(cx, back['corr'][i], df['corr'][i], 'df.corr[%d]' % i)
        cx.expect(back['int'][i] == df['int'][i] and back['txt'][i] == df['txt'][i], 'df.plain[%d]' % i)


HARNESSES = dict(obs=h_obs, struct=h_struct, dict=h_dict, pandas=h_pandas)


def jobs(tier, seed):
    J = []

    def add(h, **p):
        J.append(dict(harness=h, params=p))
    add('obs', kinds=['range', 'strided', 'irregular'], tags=[None, 'text', 5])
    add('obs', kinds=['rangelike', 'rangelike2'], tags=[None, None])
    add('obs', kinds=['replicas', 'sep', 'reweighted'], tags=[[1, 'a'], {'k': 1.5}, True])
    add('obs', kinds=['multi', 'cov', 'covmix'], tags=['m', None, 2.5])
    add('obs', kinds=['jack', 'jackmix'], tags=[None, 'j'])
    add('obs', kinds=['odd', 'even'], tags=[None, None])
    add('obs', kinds=['prefix', 'prefix', 'range'], tags=[None, 't', None])
    for w in ('array-prefix', 'list-prefix', 'corr-prefix'):
        add('struct', which=w)
    add('dict', many=True)
    for w in ('list', 'list-cov', 'array', 'array-T', 'array-F', 'array-slice', 'array3', 'corr', 'corr-none-tag', 'corr-matrix-none', 'corr-pad-prange-tag', 'corr-matrix-prange'):
        add('struct', which=w)
    add('dict')
    add('pandas', gz=False)
    add('pandas', gz=True)
    if tier == 'thorough':
        # every ordered pair of observable kinds in one file (column bookkeeping between different chain layouts), tags of every JSON type
        import itertools
        kinds = ['range', 'strided', 'irregular', 'odd', 'even', 'prefix', 'rangelike', 'rangelike2', 'replicas', 'sep', 'multi', 'cov', 'covmix', 'jackmix', 'reweighted']
        tags = [None, 'text', 5, 2.5, True, [1, 'a'], {'k': [1, None]}]
        for i, (k1, k2) in enumerate(itertools.permutations(kinds, 2)):
            add('obs', kinds=[k1, k2], tags=[tags[i % len(tags)], tags[(i // 3) % len(tags)]])
    return J


def apply_canary(name):
    from symx.mutate import mutate
    if name == 'offset-sign':
        return mutate('pyerrors.input.json', 'create_json_string', 'offsets = [o.r_values[r_name] - o.value for o in ol]', 'offsets = [o.value - o.r_values[r_name] for o in ol]')
    if name == 'grad-transposed':
        return mutate('pyerrors.input.json', '_parse_json_dict', "retl.append({'name': name, 'cov': cov, 'grad': [g[i] for g in grad]})", "retl.append({'name': name, 'cov': cov, 'grad': [g[0] for g in grad]})")
    if name == 'prange-lost':
        return mutate('pyerrors.input.json', '_parse_json_dict', 'my_corr.prange = temp_prange', 'my_corr.prange = None')
    if name == 'column-mixup':
        return mutate('pyerrors.input.json', '_parse_json_dict', "ret.append(Obs([od['deltas'][j][:, i] - r_offsets[j] for j in range(len(od['deltas']))], od['names'], idl=od['idl'], means=[ro + values[i] for ro in r_offsets]))\n                ret[-1]._value = values[i]\n            else:\n                ret.append(Obs([], [], means=[]))\n                ret[-1]._value = values[i]\n                print(", "ret.append(Obs([od['deltas'][j][:, layout - 1 - i] - r_offsets[j] for j in range(len(od['deltas']))], od['names'], idl=od['idl'], means=[ro + values[i] for ro in r_offsets]))\n                ret[-1]._value = values[i]\n            else:\n                ret.append(Obs([], [], means=[]))\n                ret[-1]._value = values[i]\n                print(")
    raise KeyError(name)


def _cj(h, **p):
    return lambda tier, seed: [dict(harness=h, params=p)]


CANARIES = [
    dict(name='offset-sign', what='sign of the replica offset in the writer', quick=True, jobs=_cj('obs', kinds=['replicas'], tags=[None])),
    dict(name='grad-transposed', what='gradient of the wrong observable of a list', jobs=_cj('struct', which='list-cov')),
    dict(name='prange-lost', what='prange dropped by the reader', jobs=_cj('struct', which='corr-pad-prange-tag')),
    dict(name='column-mixup', what='columns of a list mixed up by the reader', jobs=_cj('struct', which='list')),
]

META = dict(
    explanation='C11: create_json_string (all writers incl. the NaN placeholder for undefined Corr slices, tag / prange handling), _parse_json_dict (all readers), the dict helpers, '
                'dump_to_json / load_json / dump_dict_to_json / load_json_dict (through an in-memory open / gzip.open) and the data-frame (de)serialisation run on symbolic values, fluctuations, '
                'replica means and covariance gradients behind the rapidjson contract. Decided: every attribute of every re-imported object equals the original (value, names, idl incl. its '
                'range-vs-list form, every fluctuation, replica means, gradients, covariance, tag, reweighted flag, prange, None pattern, structure). Schema: each emitted document with the '
                'symbolic leaves instantiated once validates against examples/json_schema.json (auxiliary, non-solver).',
    bounds='Obs on range / strided / irregular lists, 2 replicas, multi-ensemble + covariance inputs of dimension 1-3, reweighted; list (3), arrays 3x2 and 2x1x2, Corr with T<=5, N in {1,2}, None entries, '
           'padding, prange, tag; dict nesting depth 3 with lists / arrays / Corr / plain values / non-string keys; tags of every JSON type; data frame with Obs, list and Corr columns (gz on/off).',
    outside=['gzip, real files, sqlite, csv text, pickle', 'rapidjson number printing (contract: identity on finite doubles)', 'NaN data'],
    stubs=['numpy shim', 'rapidjson -> JSON-data-model identity with default= hook', 'open / gzip.open -> in-memory files'],
    assumptions=[],
)
