"""C16 GEVP: wiring of the generalised eigenvalue solver under LAPACK contracts (eigen-equation, ordering, symmetrisation)."""
import functools
import types

import numpy as np
import z3

from symx import core, lib, contracts
from symx.core import SV, tz

PROPERTY = 'C16'
OPTS = dict(timeout=300000, maxpaths=20)
MODS = ('pyerrors.obs', 'pyerrors.covobs', 'pyerrors.correlators', 'pyerrors.linalg', 'pyerrors.misc')
CFG = [1, 2, 3, 4, 5]


def _fresh(cx, stem, shape):
    out = np.empty(shape, dtype=object)
    for idx in np.ndindex(*shape):
        out[idx] = SV(cx.newvar(stem))
    return out


def install(cx, rec):
    """LAPACK contracts: eigh(A, B, lower=True) -> (w ascending, V) with A_L V = B_L V diag(w), V^T B_L V = 1 (A_L, B_L the symmetric matrices
    defined by the lower triangles); cholesky(A) -> lower L with L L^T = A; inv(L) -> X with X L = L X = 1."""
    import pyerrors.correlators as C
    lib.sym_env(cx, *MODS)
    if cx.mode != 'sym':
        return

    def low(A):
        A = np.asarray(A, dtype=object)
        n = A.shape[0]
        return np.array([[A[max(i, j), min(i, j)] for j in range(n)] for i in range(n)], dtype=object)

    def eigh(A, B=None, lower=True, **kw):
        A = low(A)
        n = A.shape[0]
        Bm = low(B) if B is not None else np.array([[1 if i == j else 0 for j in range(n)] for i in range(n)], dtype=object)
        w = _fresh(cx, 'eig', (n,))
        V = _fresh(cx, 'eig', (n, n))
        for k in range(n):
            lhs = A.dot(V[:, k])
            rhs = Bm.dot(V[:, k]) * w[k]
            for i in range(n):
                cx.fact(tz(lhs[i]) == tz(rhs[i]))
            if k:
                cx.fact(tz(w[k - 1]) <= tz(w[k]))
            for l in range(k + 1):
                cx.fact(tz(V[:, l].dot(Bm.dot(V[:, k]))) == (1 if l == k else 0))
        rec.setdefault('eigh', []).append((A, Bm, w, V))
        return w, V

    def cholesky(A):
        A = np.asarray(A, dtype=object)
        n = A.shape[0]
        Lm = np.zeros((n, n), dtype=object)
        for i in range(n):
            for j in range(i + 1):
                Lm[i, j] = SV(cx.newvar('chol'))
            cx.fact(tz(Lm[i, i]) > 0)
        P = Lm.dot(Lm.T)
        for i in range(n):
            for j in range(i + 1):
                cx.fact(tz(P[i, j]) == tz(A[i, j]))
        rec.setdefault('chol', []).append((A, Lm))
        return Lm

    def inv(Lm):
        Lm = np.asarray(Lm, dtype=object)
        n = Lm.shape[0]
        X = _fresh(cx, 'inv_c', (n, n))
        for P in (X.dot(Lm), Lm.dot(X)):
            for i in range(n):
                for j in range(n):
                    cx.fact(tz(P[i, j]) == (1 if i == j else 0))
        rec.setdefault('inv', []).append((Lm, X))
        return X
    shim = vars(C)['np']
    from symx.npshim import NPShim
    cshim = NPShim()
    cshim.__dict__['_linalg_over'] = dict(det=_det, cholesky=cholesky, inv=inv, eigh=lambda M, **k: eigh(M), multi_dot=lambda ops: functools.reduce(np.dot, ops))
    cx.patch(C, 'np', cshim)
    contracts.install_scipy(cx, 'pyerrors.correlators', **{'linalg.eigh': eigh})
    import pyerrors as pe
    cx.patch(pe.Corr, 'is_matrix_symmetric', lambda self: False)      # hashing of symbolic data is not modelled: always symmetrise


def mk_matrix_corr(cx, T, N, pattern, stem='g'):
    import pyerrors as pe
    content = []
    for t in range(T):
        if not pattern[t]:
            content.append(None)
            continue
        m = np.empty((N, N), dtype=object)
        for i in range(N):
            for j in range(N):
                m[i, j], _ = lib.mk_obs(cx, '%s%d_%d%d' % (stem, t, i, j), {'e|r1': CFG})
                if i == j:
                    m[i, j] = m[i, j] + 2.0 * N        # generic replay data are then diagonally dominant (positive definite); still arbitrary symbolically
        content.append(m)
    return pe.Corr(content)


def sym_values(corr, t):
    G = corr.content[t]
    N = corr.N
    return np.array([[0.5 * (G[i, j].value + G[j, i].value) for j in range(N)] for i in range(N)], dtype=object)


def h_gevp(cx, N, T, pattern, t0, sort, method, ts=None):
    import pyerrors as pe
    rec = {}
    install(cx, rec)
    corr = mk_matrix_corr(cx, T, N, pattern)
    kw = dict(method=method)
    if sort is None:
        vecs = corr.GEVP(t0, ts=ts, sort=None, **kw)
        per_t = {ts: [vecs[s] for s in range(N)]}
    else:
        vecs = corr.GEVP(t0, sort=sort, **kw)
        cx.expect(len(vecs) == N and all(len(v) == T for v in vecs), 'shape: N states x T timeslices')
        per_t = {}
        for t in range(T):
            if t <= t0 or corr.content[t] is None:
                cx.expect(all(vecs[s][t] is None for s in range(N)), 'undefined for t <= t0 or undefined G(t) [%d]' % t)
            else:
                per_t[t] = [vecs[s][t] for s in range(N)]
    if cx.mode == 'conc':
        G0 = np.array(sym_values(corr, t0), dtype=float)
        for t, vs in per_t.items():
            Gt = np.array(sym_values(corr, t), dtype=float)
            lam = []
            for s in range(N):
                v = np.asarray(vs[s], dtype=float)
                l = (v @ Gt @ v) / (v @ G0 @ v)
                lam.append(l)
                cx.prove_eq(list(Gt @ v / np.abs(G0 @ v).max()), list(l * (G0 @ v) / np.abs(G0 @ v).max()), 'eigen-equation[t=%d,state=%d]' % (t, s))
            cx.prove(all(lam[s] >= lam[s + 1] - 1e-12 for s in range(N - 1)), 'state 0 = largest eigenvalue [t=%d]' % t)
        return
    G0 = sym_values(corr, t0)
    for Lm, X in rec.get('inv', []):
        # the inv contract pins X down: replace it by the explicit inverse of the triangular factor (forward substitution) once that is proven
        n = Lm.shape[0]
        if any(not isinstance(Lm[i, j], SV) and Lm[i, j] != 0 for i in range(n) for j in range(i + 1, n)):
            continue
        Xe = np.zeros((n, n), dtype=object)
        for j in range(n):
            for i in range(j, n):
                acc = (1 if i == j else 0) - sum(Lm[i, k] * Xe[k, j] for k in range(j, i))
                Xe[i, j] = acc / Lm[i, i]
        for i in range(n):
            for j in range(n):
                cx.eliminate(X[i, j], Xe[i, j], 'inverse of the Cholesky factor is the explicit triangular inverse [%d,%d]' % (i, j))
    solves = rec.get('eigh', [])
    cx.expect(len(solves) == len(per_t), 'one eigen-decomposition per timeslice', '%d vs %d' % (len(solves), len(per_t)))
    for (t, vs), (A, Bm, w, V) in zip(sorted(per_t.items()), solves):
        Gt = sym_values(corr, t)
        for s in range(N):
            v = np.asarray(vs[s], dtype=object)
            lam = w[N - 1 - s]          # state s <-> s-th largest eigenvalue of the contract
            lhs = Gt.dot(v)
            rhs = G0.dot(v) * lam
            for i in range(N):
                cx.prove_eq(lhs[i], rhs[i], 'G(t) v = lambda G(t0) v [t=%d,state=%d,row=%d]' % (t, s, i))
        for s in range(N - 1):
            cx.prove(w[N - 1 - s] >= w[N - 2 - s], 'eigenvalues decrease with the state index [t=%d,%d]' % (t, s))


def h_prune(cx, N, Ntrunc, T, pattern, tproj=2, t0proj=1, base=False):
    """Corr.prune: with v_0..v_{Ntrunc-1} the GEVP vectors of the base matrix at (t0proj, tproj), the symmetrised pruned matrix must be
    V^T G_sym(t) V (value and every fluctuation) - this is what makes the GEVP of the pruned matrix see the same lowest states, also for non-symmetric input"""
    import pyerrors as pe
    rec = {}
    install(cx, rec)
    corr = mk_matrix_corr(cx, T, N, pattern)
    bm = mk_matrix_corr(cx, T, N, [True] * T, stem='b') if base else None          # its own symbols: base matrix and pruned correlator are different matrices
    calls = []
    real_gevp = pe.Corr.GEVP

    def gevp(self, *a, **k):
        out = real_gevp(self, *a, **k)
        calls.append((self, a, k, out))
        return out
    cx.patch(pe.Corr, 'GEVP', gevp)
    kw = dict(basematrix=bm) if base else {}
    res = corr.prune(Ntrunc, tproj=tproj, t0proj=t0proj, **kw)
    cx.expect(len(calls) == 1 and calls[0][0] is (bm if base else corr), 'one GEVP on the base matrix')
    if len(calls) != 1:
        return
    _, a, k, vecs = calls[0]
    args = dict(zip(('t0', 'ts', 'sort'), a), **k)
    cx.expect(args.get('t0') == t0proj and args.get('ts') == tproj and args.get('sort', 'Eigenvalue') is None, 'GEVP at (t0proj, tproj) with sort=None', str(args))
    cx.expect(isinstance(res, pe.Corr) and res.T == T and res.N == Ntrunc, 'shape of the pruned correlator')
    V = [np.asarray(vecs[s], dtype=object) for s in range(Ntrunc)]
    for t in range(T):
        if corr.content[t] is None:
            cx.expect(res.content[t] is None, 'undefined timeslice stays undefined [%d]' % t)
            continue
        if not cx.expect(res.content[t] is not None, 'defined timeslice stays defined [%d]' % t):
            continue
        G = corr.content[t]
        P = res.content[t]
        for i in range(Ntrunc):
            for j in range(i, Ntrunc):
                lhs = 0.5 * (P[i, j] + P[j, i])
                rhs = None
                for x in range(N):
                    for y in range(N):
                        term = (0.5 * (G[x, y] + G[y, x])) * (V[i][x] * V[j][y])
                        rhs = term if rhs is None else rhs + term
                lib.obs_equiv(cx, lhs, rhs, 'sym(pruned)[%d,%d] = v_i^T G_sym v_j [t=%d]' % (i, j, t))


def h_bad(cx):
    import pyerrors as pe
    rec = {}
    install(cx, rec)
    corr = mk_matrix_corr(cx, 3, 2, [True, True, True])
    for kw, exc in ((dict(t0=0, sort=None), ValueError), (dict(t0=0, sort='nonsense'), ValueError), (dict(t0=0, sort='Eigenvector'), ValueError)):
        try:
            corr.GEVP(**kw)
        except exc:
            cx.ok('rejected %s' % (kw,))
        else:
            cx.fail('accepted %s' % (kw,))
    c1 = pe.Corr([lib.mk_obs(cx, 's%d' % t, {'e|r1': CFG})[0] for t in range(3)])
    try:
        c1.GEVP(0)
    except Exception as e:
        if isinstance(e, core.Realize):
            raise
        cx.ok('N=1 rejected')
    else:
        cx.fail('N=1 accepted')


def _det(M):
    """determinant by the Leibniz formula (the definition; stands for np.linalg.det on symbolic entries)"""
    import itertools
    M = np.asarray(M, dtype=object)
    n = M.shape[0]
    tot = 0
    for p in itertools.permutations(range(n)):
        sgn = 1
        for i in range(n):
            for j in range(i + 1, n):
                if p[i] > p[j]:
                    sgn = -sgn
        term = sgn
        for i in range(n):
            term = term * M[i, p[i]]
        tot = tot + term
    return tot


REFS = {'eye': lambda N: np.eye(N), 'tri': lambda N: np.array([[1.0, 1.0, 0.0], [0.0, 1.0, 0.0], [0.0, 0.0, 1.0]])[:N, :N], 'skew': lambda N: np.array([[2.0, 1.0, 0.0], [0.0, 1.0, 1.0], [1.0, 0.0, 3.0]])[:N, :N]}


def h_sortvec(cx, N, T, ts, pattern, ref='sym'):
    """_sort_vectors (sort='Eigenvector', arXiv:2004.10472): on every timeslice the returned order of the vectors must maximise
    prod_s |det(reference with row s replaced by the vector placed at s)| over all orders, the vectors themselves are untouched,
    the reference timeslice and undefined timeslices are passed through."""
    import itertools
    import pyerrors.correlators as C
    rec = {}
    install(cx, rec)
    vec_set = []
    for t in range(T):
        if not pattern[t]:
            vec_set.append(None)
        elif t == ts and ref != 'sym':
            vec_set.append(np.array(REFS[ref](N), dtype=object if cx.mode == 'sym' else float))
        else:
            vec_set.append(np.array([[cx.real('v%d_%d%d' % (t, k, i)) + (1.0 if i == k else 0.0) for i in range(N)] for k in range(N)], dtype=object if cx.mode == 'sym' else float))
    R = np.asarray(vec_set[ts], dtype=object)
    detf = _det if cx.mode == 'sym' else (lambda M: float(np.linalg.det(np.asarray(M, dtype=float))))
    cx.assume(detf(R) != 0, 'reference vectors linearly independent')
    for t in range(T):
        if vec_set[t] is not None and t != ts:
            cx.assume(detf(vec_set[t]) != 0, 'vectors of one timeslice linearly independent')
    out = C._sort_vectors(list(vec_set), ts)
    if not cx.expect(len(out) == T, 'one entry per timeslice'):
        return

    def same(a, b):
        if cx.mode == 'sym':
            return all(z3.simplify(tz(x) - tz(y)).eq(z3.RealVal(0)) if (isinstance(x, SV) or isinstance(y, SV)) else x == y for x, y in zip(a, b))
        return bool(np.array_equal(np.asarray(a, dtype=float), np.asarray(b, dtype=float)))

    def score(assign, vs):
        """assign[k] = reference row that vector k replaces"""
        s = 1
        for k in range(N):
            M = R.copy()
            M[assign[k], :] = vs[k]
            s = s * abs(detf(M))
        return s
    for t in range(T):
        if vec_set[t] is None:
            cx.expect(out[t] is None, 'undefined timeslice passed through [%d]' % t)
            continue
        if not cx.expect(out[t] is not None and len(out[t]) == N, 'N vectors [%d]' % t):
            continue
        vs = [vec_set[t][k] for k in range(N)]
        pos = []
        for k in range(N):
            hit = [s for s in range(N) if same(out[t][s], vs[k])]
            pos.append(hit[0] if len(hit) == 1 else None)
        if not cx.expect(None not in pos and sorted(pos) == list(range(N)), 'returned vectors are a permutation of the input vectors [%d]' % t, str(pos)):
            continue
        if t == ts:
            cx.expect(pos == list(range(N)), 'reference timeslice unchanged')
            continue
        s_out = score(pos, vs)
        for b in itertools.permutations(range(N)):
            if list(b) == pos:
                continue
            s_b = score(list(b), vs)
            if cx.mode == 'sym':
                cx.prove(s_out >= s_b, 'returned order maximises the overlap score [t=%d, vs %s]' % (t, list(b)))
            else:
                cx.prove(s_out >= s_b * (1 - 1e-9), 'returned order maximises the overlap score [t=%d, vs %s]' % (t, list(b)))


def _same_vec(cx, a, b):
    a, b = np.asarray(a, dtype=object).ravel(), np.asarray(b, dtype=object).ravel()
    if len(a) != len(b):
        return False
    if cx.mode == 'sym':
        return all(z3.simplify(tz(x) - tz(y)).eq(z3.RealVal(0)) if (isinstance(x, SV) or isinstance(y, SV)) else x == y for x, y in zip(a, b))
    return bool(np.array_equal(np.asarray(a, dtype=float), np.asarray(b, dtype=float)))


def h_gevp_sortvec(cx, N, T, pattern, t0, ts, method='eigh'):
    """Corr.GEVP(sort='Eigenvector'): what is handed to _sort_vectors and what is made of its result.
    _sort_vectors must receive one entry per timeslice (None for t <= t0 and undefined timeslices, else the solver's vectors of that timeslice, state 0 =
    largest eigenvalue) and the caller's reference time ts as an absolute timeslice; the returned list [state][t] is the transposed result of _sort_vectors
    (whose own correctness is decided by the sortvec harness)."""
    import pyerrors as pe
    import pyerrors.correlators as C
    rec = {}
    install(cx, rec)
    corr = mk_matrix_corr(cx, T, N, pattern)
    calls = []
    real_sort = C._sort_vectors
    solved = []
    real_solver = C._GEVP_solver

    def solver(Gt, G0, **k):
        out = real_solver(Gt, G0, **k)
        solved.append(out)
        return out

    def sort_vectors(vec_set, ts_arg):
        calls.append((list(vec_set), ts_arg))
        out = list(vec_set)                   # identity: the permutation logic itself is the subject of the sortvec harness
        calls.append(out)
        return out
    cx.patch(C, '_GEVP_solver', solver)
    cx.patch(C, '_sort_vectors', sort_vectors)
    vecs = corr.GEVP(t0, ts=ts, sort='Eigenvector', method=method)
    if not cx.expect(len(calls) == 2, '_sort_vectors called once', str(len(calls))):
        return
    (vec_set, ts_arg), _ = calls
    cx.expect(ts_arg == ts, 'reference time handed to _sort_vectors is the caller\'s ts (absolute timeslice)', '%r vs %r' % (ts_arg, ts))
    if not cx.expect(len(vec_set) == T, 'one entry per timeslice handed to _sort_vectors', '%d vs %d' % (len(vec_set), T)):
        return
    k = 0
    for t in range(T):
        if t <= t0 or corr.content[t] is None:
            cx.expect(vec_set[t] is None, 'no vectors for t <= t0 / undefined timeslice [%d]' % t)
        else:
            ok = vec_set[t] is not None and k < len(solved) and vec_set[t] is solved[k]
            cx.expect(ok, 'entry t=%d is the solution of the GEVP at that timeslice' % t)
            k += 1
    cx.expect(len(vecs) == N and all(len(v) == T for v in vecs), 'result: N states x T timeslices')
    for s_ in range(N):
        for t in range(T):
            want = None if vec_set[t] is None else vec_set[t][s_]
            cx.expect((vecs[s_][t] is None) == (want is None) and (want is None or _same_vec(cx, vecs[s_][t], want)), 'result[state %d][t=%d] = sorted[t][state]' % (s_, t))


HARNESSES = dict(gevp=h_gevp, bad=h_bad, prune=h_prune, sortvec=h_sortvec, gevp_sortvec=h_gevp_sortvec)


def jobs(tier, seed):
    J = []

    def add(h, **p):
        J.append(dict(harness=h, params=p))
    add('gevp', N=2, T=3, pattern=[True, True, True], t0=0, sort=None, method='eigh', ts=2)
    add('gevp', N=2, T=4, pattern=[True, True, False, True], t0=0, sort='Eigenvalue', method='eigh')
    add('gevp', N=2, T=4, pattern=[True, True, True, True], t0=1, sort='Eigenvalue', method='eigh')
    add('bad')
    add('prune', N=3, Ntrunc=2, T=3, pattern=[True, True, True])
    add('prune', N=3, Ntrunc=2, T=4, pattern=[True, True, True, False], base=True)
    add('gevp', N=2, T=3, pattern=[True, True, True], t0=0, sort=None, method='cholesky', ts=1)
    add('gevp_sortvec', N=2, T=5, pattern=[True, True, True, True, True], t0=1, ts=3)
    add('gevp_sortvec', N=2, T=5, pattern=[True, True, False, True, True], t0=0, ts=4)
    add('sortvec', N=2, T=3, ts=1, pattern=[True, True, True], ref='skew')
    add('sortvec', N=2, T=4, ts=3, pattern=[True, False, True, True], ref='eye')
    J.append(dict(harness='sortvec', params=dict(N=3, T=3, ts=1, pattern=[False, True, True], ref='eye'), opts=dict(maxpaths=400)))
    if tier == 'thorough':
        J.append(dict(harness='sortvec', params=dict(N=3, T=2, ts=0, pattern=[True, True], ref='tri'), opts=dict(maxpaths=400, job_timeout=1200)))
    if tier == 'thorough':
        add('gevp', N=2, T=3, pattern=[True, True, True], t0=1, sort='Eigenvalue', method='cholesky')
        add('gevp', N=2, T=4, pattern=[True, True, True, True], t0=0, sort='Eigenvalue', method='eigh')
    return J


def apply_canary(name):
    from symx.mutate import mutate
    if name == 'no-reversal':
        return mutate('pyerrors.correlators', '_GEVP_solver', 'return scipy.linalg.eigh(Gt, G0, lower=True)[1].T[::-1]', 'return scipy.linalg.eigh(Gt, G0, lower=True)[1].T')
    if name == 'no-transpose':
        return mutate('pyerrors.correlators', '_GEVP_solver', 'return scipy.linalg.eigh(Gt, G0, lower=True)[1].T[::-1]', 'return scipy.linalg.eigh(Gt, G0, lower=True)[1][::-1]')
    if name == 't0-ts-confusion':
        return mutate('pyerrors.correlators', 'Corr.GEVP', 'Gt = _get_mat_at_t(ts)', 'Gt = _get_mat_at_t(t0)')
    raise KeyError(name)


def _cj(**p):
    return lambda tier, seed: [dict(harness='gevp', params=p)]


_P = dict(N=2, T=3, pattern=[True, True, True], t0=0, sort=None, method='eigh', ts=2)
CANARIES = [
    dict(name='no-reversal', what='states paired with the smallest eigenvalue first', quick=True, jobs=_cj(**_P)),
    dict(name='no-transpose', what='rows instead of columns of the eigenvector matrix', jobs=_cj(**_P)),
    dict(name='t0-ts-confusion', what='G(t0) used on the left-hand side', jobs=_cj(**_P)),
]

META = dict(
    explanation='C16 (wiring only): Corr.GEVP (sort None / "Eigenvalue"), _GEVP_solver (eigh and cholesky methods) and matrix_symmetric run on symbolic matrix entries behind LAPACK contracts '
                '(eigh: A v = w B v with ascending w and B-orthonormal v on the lower-triangle-defined matrices; cholesky: L L^T = A; inv: X L = L X = 1). Decided: every returned vector satisfies '
                'G(t) v = lambda G(t0) v for the symmetrised G with the eigenvalue the contract associates to it, state index s <-> s-th largest eigenvalue, undefined timeslices / t <= t0 give None, invalid requests are rejected. '
                'Eigenvector sorting (_sort_vectors, arXiv:2004.10472): on symbolic vectors (N = 2, 3; np.linalg.det replaced by its Leibniz polynomial) the returned order maximises, on every timeslice, the product of '
                '|det(reference with row s replaced by the vector placed at s)| over all N! orders; the vectors are returned untouched, reference and undefined timeslices are passed through. Corr.prune = V^T G_sym V.',
    bounds='N = 2 (N = 3 and the Cholesky method over several timeslices exceed 10 minutes per query in z3 and are not run), T = 3..4, t0 in {0,1}, undefined timeslices; methods eigh and cholesky (cholesky for sort=None at N=2). Eigenvector sorting: N = 2 and 3, T = 2..4, concrete reference vectors (identity, a non-orthogonal matrix), symbolic vectors on the other timeslices (a symbolic reference at N = 2 and a non-orthogonal reference at N = 3 do not finish within 5 minutes).',
    outside=['recovery of exact exponentials, agreement of the two solvers up to normalisation and the matrix-pencil method: statements about LAPACK eigen/SVD output on specific matrices - not applicable to this technique', 'that the overlap-maximising order follows the physical state (a statement about the spectra, not about the code)',
             'vector_obs=True (error propagation through eigh/cholesky: LAPACK + autograd vjps)', 'is_matrix_symmetric (hash based) is forced to the general branch'],
    stubs=['scipy.linalg.eigh / np.linalg.eigh / cholesky / inv -> contracts', 'np.linalg.det -> Leibniz formula', 'numpy shim'],
    assumptions=['G(t0) positive definite (cholesky contract)', 'sorting: vectors of one timeslice linearly independent'],
)
