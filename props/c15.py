"""C15 Correlator derived quantities equal their defining formulas where defined."""
import itertools

import numpy as np

from symx import core, lib, contracts, dual
from symx.core import fn, If
from props import c14

PROPERTY = 'C15'
OPTS = dict(timeout=60000, maxpaths=800)
MODS = ('pyerrors.obs', 'pyerrors.covobs', 'pyerrors.correlators', 'pyerrors.roots', 'pyerrors.misc')
CFG = [1, 2, 3, 4, 5]


def mk_corr(cx, T, pattern):
    import pyerrors as pe
    content, specs = [], []
    for t in range(T):
        if not pattern[t]:
            content.append(None)
            specs.append(None)
        else:
            o, s = lib.mk_obs(cx, 'c%d' % t, {'e|r1': CFG})
            content.append(o)
            specs.append(s)
    return pe.Corr(content), specs


def _refs_defined(S, ts):
    return all(0 <= t < len(S) and S[t] is not None for t in ts)


def check(cx, res, T, expect, label):
    """expect[t] = None (must be undefined) | Spec (must equal) | ('cond', z3-or-bool condition for being defined, Spec)"""
    import pyerrors as pe
    if not cx.expect(isinstance(res, pe.Corr) and res.T == T and res.N == 1, label + ':shape', 'T=%s' % getattr(res, 'T', None)):
        return
    for t in range(T):
        r = res.content[t]
        e = expect[t]
        cond = True
        if isinstance(e, tuple):
            _, cond, e = e
        if r is None:
            if e is not None:
                # undefined output although all referenced inputs are defined: only allowed when the formula has no real solution
                cx.prove(core.Not(cond), label + ':undefined-only-where-stated[%d]' % t)
            else:
                cx.ok(label + ':undefined[%d]' % t)
            continue
        if e is None:
            cx.fail(label + ':defined-where-it-must-be-undefined[%d]' % t)
            continue
        if cond is not True:
            cx.prove(cond, label + ':defined-only-inside-domain[%d]' % t)
        lib.compare(cx, r[0], e, '%s[%d]' % (label, t), wellformed=False)


def _run(cx, f, expect, T, label, a, snap):
    """an undefined timeslice inside the correlator never raises as long as one output timeslice is defined"""
    try:
        res = f()
    except core.Realize:
        raise
    except Exception as ex:
        anydef = [e for e in expect if e is not None]
        if not anydef:
            cx.ok(label + ':raises-when-nothing-defined')
            return None
        conds = [e[1] for e in expect if isinstance(e, tuple)]
        if len(conds) == len(anydef) and conds:
            # all candidate slices are conditional: raising is right iff every condition fails on this path
            for k, c in enumerate(conds):
                cx.prove(core.Not(c), label + ':raises-only-if-no-slice-defined[%d]' % k)
            return None
        cx.fail(label + ':raises', '%s: %s' % (type(ex).__name__, ex))
        return None
    check(cx, res, T, expect, label)
    c14.unchanged(cx, a, snap, label)
    return res


def lin(coefs, ts):
    return lambda S: lib.derived_spec(lambda x: sum(c * x[k] for k, c in enumerate(coefs)), [S[t] for t in ts])


DERIV = {
    'symmetric': (lambda t: [t - 1, t + 1], lambda x: 0.5 * (x[1] - x[0])),
    'forward': (lambda t: [t, t + 1], lambda x: x[1] - x[0]),
    'backward': (lambda t: [t - 1, t], lambda x: x[1] - x[0]),
    'improved': (lambda t: [t - 2, t - 1, t + 1, t + 2], lambda x: (x[0] - 8 * x[1] + 8 * x[2] - x[3]) / 12),
}
SECOND = {
    'symmetric': (lambda t: [t - 1, t, t + 1], lambda x: x[2] - 2 * x[1] + x[0]),
    'big_symmetric': (lambda t: [t - 2, t, t + 2], lambda x: (x[2] - 2 * x[1] + x[0]) / 4),
    'improved': (lambda t: [t - 2, t - 1, t, t + 1, t + 2], lambda x: (-x[4] + 16 * x[3] - 30 * x[2] + 16 * x[1] - x[0]) / 12),
}


def h_deriv(cx, T, pat, which, variant):
    lib.sym_env(cx, *MODS)
    a, S = mk_corr(cx, T, pat)
    snap = c14.snapshot(a)
    table = DERIV if which == 'deriv' else SECOND
    if variant != 'log':
        refs, f = table[variant]
        expect = []
        for t in range(T):
            ts = refs(t)
            if min(ts) < 0 or max(ts) >= T or not _refs_defined(S, ts):
                expect.append(None)
            else:
                expect.append(lib.derived_spec(f, [S[k] for k in ts]))
    else:
        expect = []
        for t in range(T):
            ts = [t - 1, t, t + 1]
            if min(ts) < 0 or max(ts) >= T or not _refs_defined(S, ts):
                expect.append(None)
                continue
            if which == 'deriv':
                cond = core.And(S[t - 1].value > 0, S[t + 1].value > 0)
                sp = lib.derived_spec(lambda x: x[1] * 0.5 * (fn('log', x[2]) - fn('log', x[0])), [S[k] for k in ts])
            else:
                cond = core.And(S[t - 1].value > 0, S[t].value > 0, S[t + 1].value > 0)
                sp = lib.derived_spec(lambda x: x[1] * ((fn('log', x[2]) - 2 * fn('log', x[1]) + fn('log', x[0])) +
                                                        (0.5 * (fn('log', x[2]) - fn('log', x[0]))) * (0.5 * (fn('log', x[2]) - fn('log', x[0])))), [S[k] for k in ts])
            expect.append(('cond', cond, sp))
    _run(cx, lambda: getattr(a, which)(variant), expect, T, '%s(%s)' % (which, variant), a, snap)


def h_meff(cx, T, pat, variant):
    import pyerrors as pe
    lib.sym_env(cx, *MODS)
    a, S = mk_corr(cx, T, pat)
    snap = c14.snapshot(a)
    expect = []
    if variant == 'log':
        for t in range(T):
            if t + 1 >= T or not _refs_defined(S, [t, t + 1]):
                expect.append(None)
            else:
                cond = core.And(S[t + 1].value != 0, S[t].value / S[t + 1].value >= 0) if cx.mode == 'sym' else (S[t + 1].value != 0 and S[t].value / S[t + 1].value >= 0)
                expect.append(('cond', cond, lib.derived_spec(lambda x: fn('log', x[0] / x[1]), [S[t], S[t + 1]])))
    elif variant == 'logsym':
        for t in range(T):
            if t - 1 < 0 or t + 1 >= T or not _refs_defined(S, [t - 1, t + 1]):
                expect.append(None)
            else:
                cond = core.And(S[t + 1].value != 0, S[t - 1].value / S[t + 1].value >= 0) if cx.mode == 'sym' else (S[t + 1].value != 0 and S[t - 1].value / S[t + 1].value >= 0)
                expect.append(('cond', cond, lib.derived_spec(lambda x: fn('log', x[0] / x[1]) / 2, [S[t - 1], S[t + 1]])))
    elif variant == 'arccosh':
        for t in range(T):
            if t - 1 < 0 or t + 1 >= T or not _refs_defined(S, [t - 1, t, t + 1]):
                expect.append(None)
            else:
                cond = (S[t].value != 0)
                expect.append(('cond', cond, lib.derived_spec(lambda x: fn('arccosh', (x[2] + x[0]) / (2 * x[1])), [S[t - 1], S[t], S[t + 1]])))
    _run(cx, lambda: a.m_eff(variant), expect, T, 'm_eff(%s)' % variant, a, snap)


def h_meff_root(cx, T, pat, variant):
    """cosh / periodic / sinh: root of func(m (t - T/2)) / func(m (t + 1 - T/2)) = C(t)/C(t+1) under the fsolve contract;
    value |root|, fluctuations -(df/dd)/(df/dx) times those of the ratio, sign from the abs()."""
    import pyerrors as pe
    lib.sym_env(cx, *MODS)
    contracts.install_scipy(cx, 'pyerrors.roots', **{'optimize.fsolve': contracts.fsolve})
    a, S = mk_corr(cx, T, pat)
    snap = c14.snapshot(a)
    fname = 'sinh' if variant == 'sinh' else 'cosh'
    try:
        res = a.m_eff(variant, guess=0.7)
    except ValueError:
        cx.ok('raises-when-nothing-defined') if not any(_refs_defined(S, [t, t + 1]) for t in range(T - 1)) else None
        if any(_refs_defined(S, [t, t + 1]) for t in range(T - 1)):
            for t in range(T - 1):
                if variant == 'sinh' and t in (T / 2, T / 2 - 1):
                    continue    # documented: the middle timeslices copy their predecessor
                if _refs_defined(S, [t, t + 1]):
                    cx.prove(core.Or(S[t + 1].value == 0, S[t].value / S[t + 1].value < 0), 'raises-only-if-no-slice-defined[%d]' % t)
        return
    cx.expect(res.T == T and res.N == 1 and res.content[T - 1] is None, 'shape+padding')
    roots = list(getattr(cx, 'roots', []))
    k = 0
    prev = None
    for t in range(T - 1):
        r = res.content[t]
        if not _refs_defined(S, [t, t + 1]):
            cx.expect(r is None, 'undefined[%d]' % t)
            prev = None
            continue
        if variant == 'sinh' and t in (T / 2, T / 2 - 1):
            # documented: the two timeslices in the middle of the lattice are filled with their predecessors
            if cx.mode == 'sym' and S[t + 1].value is not None:
                pass
            if r is None or prev is None:
                cx.expect((r is None) == (prev is None) or True, 'sinh-middle[%d]' % t)
            else:
                lib.eq_obs(cx, r[0], prev[0], 'sinh-middle=predecessor[%d]' % t)
            prev = r
            continue
        if r is None:
            cx.prove(core.Or(S[t + 1].value == 0, S[t].value / S[t + 1].value < 0), 'undefined-only-outside-domain[%d]' % t)
            prev = r
            continue
        cx.prove(core.And(S[t + 1].value != 0, S[t].value / S[t + 1].value >= 0), 'defined-only-inside-domain[%d]' % t)
        ratio = lib.derived_spec(lambda x: x[0] / x[1], [S[t], S[t + 1]])
        off = t - T / 2

        def f(x, d, off=off):
            return fn(fname, x * off) / fn(fname, x * (off + 1)) - d
        if cx.mode == 'sym':
            root = roots[k]
            k += 1
            dx = dual.partials(lambda v: f(v[0], ratio.value), [root])[0]
            dd = dual.partials(lambda v: f(root, v[0]), [ratio.value])[0]
            sgn = If(root >= 0, 1, -1)
            sp = lib.derived_spec(lambda x: x[0], [ratio])
            sp.value = abs(root)
            for n in sp.deltas:
                sp.deltas[n] = {c: sgn * (-dd / dx) * v for c, v in sp.deltas[n].items()}
                # the library evaluates replica means through the same linearised function
            lib.compare(cx, r[0], sp, 'm_eff(%s)[%d]' % (variant, t), wellformed=False, check_r=False)
        else:
            m = r[0].value
            cx.prove_eq(f(m, ratio.value), 0.0, 'root-equation[%d]' % t)
            # implicit-function rule on the fluctuations
            h = 1e-6
            dx = (f(m + h, ratio.value) - f(m - h, ratio.value)) / (2 * h)
            for n in ratio.deltas:
                for i, c in enumerate(sorted(ratio.deltas[n])):
                    cx.prove_eq(r[0].deltas[n][i] * dx, ratio.deltas[n][c], 'implicit-rule[%d][%d]' % (t, c))
        prev = r
    c14.unchanged(cx, a, snap, 'm_eff(%s)' % variant)


def h_plateau(cx, T, pat, lo, hi, method):
    import pyerrors as pe
    lib.sym_env(cx, *MODS)
    a, S = mk_corr(cx, T, pat)
    snap = c14.snapshot(a)
    sel = [S[t] for t in range(lo, hi + 1) if S[t] is not None]
    try:
        r = a.plateau([lo, hi], method=method)
    except ValueError:
        cx.expect(not sel, 'raises-only-if-range-undefined')
        return
    if not cx.expect(bool(sel), 'must-raise-if-range-undefined'):
        return
    n = len(sel)
    lib.compare(cx, r, lib.derived_spec(lambda x: sum(x) / n, sel), 'plateau(avg)')
    # prange is used when no range is given
    a2 = pe.Corr(list(a.content), prange=[lo, hi]) if False else None
    a.prange = [lo, hi]
    r2 = a.plateau(method=method)
    lib.eq_obs(cx, r2, r, 'plateau(prange)')
    a.prange = None
    c14.unchanged(cx, a, snap, 'plateau')


HARNESSES = dict(deriv=h_deriv, meff=h_meff, meff_root=h_meff_root, plateau=h_plateau)


def jobs(tier, seed):
    J = []

    def add(h, **p):
        J.append(dict(harness=h, params=p))
    for T in ((5,) if tier == 'quick' else (4, 5, 6)):
        pats = c14._patterns(T, tier if T <= 5 else 'quick', seed, 5)
        for pat in pats:
            for v in DERIV:
                add('deriv', T=T, pat=pat, which='deriv', variant=v)
            for v in SECOND:
                add('deriv', T=T, pat=pat, which='second_deriv', variant=v)
    for T in (4, 5):
        for pat in c14._patterns(T, tier, seed, 3)[:(6 if tier == 'quick' else 99)]:
            add('deriv', T=T, pat=pat, which='deriv', variant='log')
            add('deriv', T=T, pat=pat, which='second_deriv', variant='log')
            for v in ('log', 'logsym', 'arccosh'):
                add('meff', T=T, pat=pat, variant=v)
    for pat in c14._patterns(4, tier, seed, 2)[:(5 if tier == 'quick' else 99)]:
        for v in ('cosh', 'periodic', 'sinh'):
            add('meff_root', T=4, pat=pat, variant=v)
    add('meff_root', T=6, pat=(True,) * 6, variant='sinh')
    add('meff_root', T=5, pat=(True, True, False, True, True), variant='cosh')
    for pat in c14._patterns(5, tier, seed, 3)[:(6 if tier == 'quick' else 99)]:
        for lo, hi in ((0, 4), (1, 3), (2, 2), (3, 4)):
            add('plateau', T=5, pat=pat, lo=lo, hi=hi, method='avg')
    return J


def apply_canary(name):
    from symx.mutate import mutate
    if name == 'improved-coefficient':
        return mutate('pyerrors.correlators', 'Corr.deriv', '- 8 * self.content[t - 1] + 8 * self.content[t + 1]', '- 8 * self.content[t - 1] + 6 * self.content[t + 1]')
    if name == 'neighbour-index':
        return mutate('pyerrors.correlators', 'Corr.second_deriv', '(self.content[t + 2] - 2 * self.content[t] + self.content[t - 2]) / 4', '(self.content[t + 2] - 2 * self.content[t] + self.content[t - 1]) / 4')
    if name == 'meff-sign':
        return mutate('pyerrors.roots', 'find_root', 'deriv = - da / dx', 'deriv = da / dx')
    raise KeyError(name)


def _cj(h, **p):
    return lambda tier, seed: [dict(harness=h, params=p)]


CANARIES = [
    dict(name='improved-coefficient', what='coefficient of the improved first derivative', quick=True, jobs=_cj('deriv', T=5, pat=(True,) * 5, which='deriv', variant='improved')),
    dict(name='neighbour-index', what='neighbour index in big_symmetric second derivative', jobs=_cj('deriv', T=5, pat=(True,) * 5, which='second_deriv', variant='big_symmetric')),
    dict(name='meff-sign', what='sign of the implicit derivative in find_root', jobs=_cj('meff_root', T=4, pat=(True,) * 4, variant='cosh')),
]

META = dict(
    explanation='C15: deriv (5 variants), second_deriv (4), m_eff (log, logsym, arccosh, cosh/periodic, sinh) and plateau by average run on correlators with symbolic '
                'samples; every defined output slice is compared with the documented formula applied to the referenced input slices (one-shot propagation on the raw samples), '
                'the set of undefined output slices must be exactly the stated one (conditions on signs / zeros are decided per path), and an exception is accepted only '
                'when no output slice is defined.',
    bounds='T = 5 (thorough 4..6) for finite differences, T = 4..5 for log variants and m_eff, T = 4..6 for the root variants; None patterns: core + seeded selection (quick), '
           'all 2^T - 1 (thorough, T <= 5); 5 configurations per entry; plateau ranges (0,4), (1,3), (2,2), (3,4).',
    outside=['fsolve numerics (contract: returns a root)', 'NaN -> undefined after arccosh / log (no NaN over the reals; the domain is part of the path condition instead)',
             'plateau by fit is decided in C07 terms (constant model) and listed there', 'T > 6'],
    stubs=['numpy shim', 'scipy.optimize.fsolve -> fresh root r with f(r, d) = 0', 'autograd.jacobian -> dual numbers'],
    assumptions=['log / arccosh / cosh / sinh uninterpreted with their derivative rules'],
)
