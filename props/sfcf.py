"""sfcf text formats (compact 'c', folder 'o', appended 'a'; versions 1.0 / 2.0) for C17 and C18.

Tagged-token text model: the synthetic file set is ordinary text, but every stored number is a distinct decimal token standing for a symbolic real
(sym mode: `float` inside pyerrors.input.sfcf maps the exact token to its symbol, any other string goes to the builtin - a token damaged by a cut
therefore becomes some concrete number and can never equal the symbol again); directory listings come from an in-memory tree in an arbitrary order.
The reader's own parsing (regular expressions, line counting, fnmatch, sorting) runs on the concrete text.  Concrete replay: real files in a scratch
directory, the tokens are the decimal expansions of the values chosen by the solver / the generic families.
"""
import io
import os
import shutil
import tempfile
import types

import numpy as np

from symx import core, lib
from symx.core import SV

MODS = ('pyerrors.obs', 'pyerrors.input.sfcf', 'pyerrors.input.utils')
QUARKS = 'lquark lquark'
# name -> (corr_type, [(wf, wf2 or None)])
CORRS = {'f_A': ('bi', [(0, None), (1, None)]), 'f_1': ('bb', [(0, 0), (0, 1)]), 'F_V0': ('bib', [(0, 0), (0, 1)])}
HEADER = ('[run]\n\nversion     2.1\ndate        2022-01-19 11:03:58 +0100\nhost        node\ndir         /scratch\nuser        u\n'
          'gauge_name  /%s\ngauge_md5   1ea28326e4090996111a320b8372811d\nparam_name  sfcf.in\nparam_md5   d881e90d41188a33b8b0f1bd0bc53ea5\n'
          'param_hash  686af5e712ee2902180f5428af94c6e7\ndata_name   ./output/data\n\n')


class Tokens:
    def __init__(self, cx):
        self.cx = cx
        self.table = {}

    def tok(self, name):
        v = self.cx.real(name)
        if self.cx.mode == 'sym':
            t = '%+.16e' % (1.0 + 0.0009765625 * (len(self.table) + 1))
            self.table[t] = v
            return t, v
        return '%+.16e' % float(v), float('%+.16e' % float(v))

    def tagfloat(self, s):
        if isinstance(s, str) and s in self.table:
            return self.table[s]
        return float(s)


def block(tk, V, rep, cfg, name, wf, wf2, T):
    ctype = CORRS[name][0]
    out = '[correlator]\n\nname      %s\nquarks    %s\noffset    0\nwf        %d\n' % (name, QUARKS, wf)
    if wf2 is not None:
        out += 'wf_2      %d\n' % wf2
    key = (name, wf, 0 if wf2 is None else wf2)
    if ctype == 'bb':
        out += 'corr\n'
        a, va = tk.tok('v_%s_c%d_%s_%d%d_re' % (rep, cfg, name, wf, wf2))
        b, vb = tk.tok('v_%s_c%d_%s_%d%d_im' % (rep, cfg, name, wf, wf2))
        V[(rep, cfg) + key + (0,)] = (va, vb)
        out += '%s %s\n' % (a, b)
    else:
        out += 'corr_t\n'
        for t in range(T):
            a, va = tk.tok('v_%s_c%d_%s_%d%d_t%d_re' % (rep, cfg, name, wf, key[2], t))
            b, vb = tk.tok('v_%s_c%d_%s_%d%d_t%d_im' % (rep, cfg, name, wf, key[2], t))
            V[(rep, cfg) + key + (t,)] = (va, vb)
            out += '%3d %s %s\n' % (t + 1, a, b)
    return out + '\n'


def build(cx, layout, prefix, reps, cfgs, T, names):
    """returns (tree: relative path -> text, V: values, tokens)"""
    tk = Tokens(cx)
    V = {}
    tree = {}
    for rep, cl in zip(reps, cfgs):
        if layout == 'a':
            for name in names:
                txt = ''
                for cfg in cl:
                    txt += HEADER % ('%s_%s_n%d' % (prefix, rep, cfg))
                    for wf, wf2 in CORRS[name][1]:
                        txt += block(tk, V, rep, cfg, name, wf, wf2, T)
                tree['%s_%s.%s' % (prefix, rep, name)] = txt
            continue
        for cfg in cl:
            if layout == 'c':
                txt = HEADER % 'unity'
                for name in names:
                    for wf, wf2 in CORRS[name][1]:
                        txt += block(tk, V, rep, cfg, name, wf, wf2, T)
                tree['%s_%s/%s_%s_n%d' % (prefix, rep, prefix, rep, cfg)] = txt
            else:
                for name in names:
                    txt = HEADER % 'unity'
                    for wf, wf2 in CORRS[name][1]:
                        txt += block(tk, V, rep, cfg, name, wf, wf2, T)
                    tree['%s_%s/cfg%d/%s' % (prefix, rep, cfg, name)] = txt
    return tree, V, tk


def _listing(tree, rel, perm):
    """(dirnames, filenames) directly below the relative directory rel, in the order given by perm (a seed)"""
    rel = rel.strip('/')
    dirs, files = [], []
    for p in tree:
        if rel and not p.startswith(rel + '/'):
            continue
        rest = p[len(rel) + 1:] if rel else p
        head, _, tail = rest.partition('/')
        if tail:
            if head not in dirs:
                dirs.append(head)
        else:
            files.append(head)
    import random
    rnd = random.Random(perm)
    if perm:
        rnd.shuffle(dirs)
        rnd.shuffle(files)
    return dirs, files


def install(cx, tree, tk, perm, cut=None):
    """cut = (relative path, number of bytes kept)"""
    import pyerrors.input.sfcf as S
    lib.sym_env(cx, *MODS)
    content = dict(tree)
    if cut is not None:
        content[cut[0]] = content[cut[0]][:cut[1]]
    if cx.mode == 'sym':
        root = '/symbolic'

        def rel(path):
            path = path.replace('//', '/')
            assert path.startswith(root), path
            return path[len(root):].strip('/')

        def mopen(path, mode='r'):
            r = rel(path)
            if r not in content:
                raise FileNotFoundError(path)
            return io.StringIO(content[r])

        def walk(path):
            d, f = _listing(content, rel(path), perm)
            yield (path, d, f)
        cx.patch(S, 'open', mopen)
        cx.patch(S, 'os', types.SimpleNamespace(walk=walk, path=os.path))
        cx.patch(S, 'float', tk.tagfloat)
        return root
    d = tempfile.mkdtemp(prefix='vcheck_sfcf_')
    cx._tmpdir = d
    for p, txt in content.items():
        full = os.path.join(d, p)
        os.makedirs(os.path.dirname(full), exist_ok=True)
        with open(full, 'w') as f:
            f.write(txt)
    return d


def cleanup(cx):
    d = getattr(cx, '_tmpdir', None)
    if d and os.path.isdir(d):
        shutil.rmtree(d, ignore_errors=True)


def call(cx, layout, path, prefix, name, wf, wf2, im=False, **kw):
    import contextlib
    import pyerrors.input.sfcf as S
    version = {'c': '2.0c', 'o': '2.0', 'a': '2.0a'}[layout]
    args = dict(quarks=QUARKS, wf=wf, version=version, corr_type=CORRS[name][0], silent=True)
    if wf2 is not None:
        args['wf2'] = wf2
    if im:
        args['im'] = True
    args.update(kw)
    with contextlib.redirect_stdout(io.StringIO()):
        return S.read_sfcf(path, prefix, name, **args)


def expected(V, prefix, reps, cfgs, name, wf, wf2, T, im=False, ens_name=None):
    """list over timeslices of samples dicts"""
    nt = 1 if CORRS[name][0] == 'bb' else T
    out = []
    for t in range(nt):
        out.append({('%s|%s' % (ens_name, rep) if ens_name else '%s_|%s' % (prefix, rep)): {c: V[(rep, c, name, wf, 0 if wf2 is None else wf2, t)][1 if im else 0] for c in cl} for rep, cl in zip(reps, cfgs)})
    return out


def compare(cx, res, exp, label):
    import pyerrors as pe
    if not cx.expect(isinstance(res, list) and len(res) == len(exp), label + ':timeslices', '%s vs %d' % (len(res) if isinstance(res, list) else type(res).__name__, len(exp))):
        return False
    ok = True
    for t, (o, s) in enumerate(zip(res, exp)):
        if not cx.expect(isinstance(o, pe.Obs), '%s[%d]:type' % (label, t)):
            return False
        ok &= bool(lib.compare(cx, o, lib.primary_spec(s), '%s[%d]' % (label, t)))
    return ok


def h_read(cx, layout, reps, cfgs, T=2, names=('f_A', 'f_1'), req=('f_A', 0, None), perm=0, im=False, files=None, ens_name=None):
    """C17: every stored number ends up at its configuration / replica / timeslice, independent of the listing order"""
    prefix = {'c': 'data_c', 'o': 'test', 'a': 'data_a'}[layout]
    tree, V, tk = build(cx, layout, prefix, reps, cfgs, T, list(names))
    path = install(cx, tree, tk, perm)
    name, wf, wf2 = req
    kw = {}
    if ens_name:
        kw['ens_name'] = ens_name         # chains are then named <ens_name>|<replica part of the file / directory name>
    sel = [list(c) for c in cfgs]
    if files is not None:
        # explicit selection of configurations (every second one, replica by replica)
        sel = [list(c)[::2] for c in cfgs] if files is True else [list(c) for c in cfgs]
        order = {True: lambda l: l, 'lex': lambda l: sorted(l, key=str), 'desc': lambda l: sorted(l, reverse=True)}[files]   # order in which the caller lists them
        if layout == 'c':
            kw['files'] = [['%s_%s_n%d' % (prefix, r, c) for c in order(s)] for r, s in zip(reps, sel)]
        elif layout == 'o':
            kw['files'] = [['cfg%d' % c for c in order(s)] for s in sel]
    try:
        try:
            res = call(cx, layout, path, prefix, name, wf, wf2, im=im, **kw)
        except core.Realize:
            raise
        except Exception as e:
            cx.fail('reader raised on a well-formed file set', '%s: %s' % (type(e).__name__, e))
            return
        compare(cx, res, expected(V, prefix, reps, sel, name, wf, wf2, T, im, ens_name=ens_name), '%s:%s' % (layout, name))
    finally:
        cleanup(cx)


def h_cut(cx, layout, reps, cfgs, which, T=2, names=('f_A', 'f_1'), req=('f_A', 0, None), lo=0, hi=None):
    """C18: one file of the set is cut after L bytes (L symbolic in [lo, hi)); the reader raises, or returns exactly the complete records:
    for the per-configuration layouts that is the full result (possible only if the cut lies behind the requested numbers), for the appended layout
    the configurations whose chunk is complete (at least the result must not contain a number that is not stored, nor move one)."""
    prefix = {'c': 'data_c', 'o': 'test', 'a': 'data_a'}[layout]
    tree, V, tk = build(cx, layout, prefix, reps, cfgs, T, list(names))
    name, wf, wf2 = req
    target = which
    total = len(tree[target])
    if lo >= total:
        cx.ok('window beyond the end of the file')
        return
    if hi is not None:
        hi = min(hi, total)
    L = cx.integer('L', lo, (hi if hi is not None else total) - 1)
    k = L.concretize(lo, (hi if hi is not None else total) - 1) if cx.mode == 'sym' else int(L)
    path = install(cx, tree, tk, 0, cut=(target, k))
    try:
        try:
            res = call(cx, layout, path, prefix, name, wf, wf2)
        except core.Realize:
            raise
        except Exception:
            cx.ok('cut file rejected')
            return
        full = expected(V, prefix, reps, [list(c) for c in cfgs], name, wf, wf2, T)
        if layout != 'a':
            compare(cx, res, full, 'cut@%s' % target)
            return
        # appended layout: complete chunks of the cut replica file precede the cut
        rep = [r for r in reps if ('_%s.' % r) in target][0]
        chunk = len(tree[target]) // len(cfgs[reps.index(rep)])
        ncomplete = k // chunk
        if target.endswith('.' + name):
            # the chunk that contains the cut may still be returned if its requested numbers are untouched (they are compared as symbols below)
            got = len(res[0].idl.get('%s_|%s' % (prefix, rep), [])) if isinstance(res, list) and res and hasattr(res[0], 'idl') else -1
            if not cx.expect(got in (ncomplete, ncomplete + 1), 'cut@%s: configurations of the cut replica = complete chunks (+ the cut one if intact)' % target, '%d returned, %d complete' % (got, ncomplete)):
                return
            keep = [list(c) if r != rep else list(c)[:got] for r, c in zip(reps, cfgs)]
            compare(cx, res, expected(V, prefix, reps, keep, name, wf, wf2, T), 'cut@%s' % target)
        else:
            compare(cx, res, full, 'cut@%s (other correlator)' % target)
    finally:
        cleanup(cx)


def h_multi(cx, layout, reps, cfgs, T=2, names=('f_A', 'f_1', 'F_V0'), perm=0, keyed=False):
    """read_sfcf_multi with several correlator names and wave-function indices in one call (nested and keyed output)"""
    import contextlib
    import pyerrors.input.sfcf as S
    prefix = {'c': 'data_c', 'o': 'test', 'a': 'data_a'}[layout]
    names = list(names)
    tree, V, tk = build(cx, layout, prefix, reps, cfgs, T, names)
    path = install(cx, tree, tk, perm)
    version = {'c': '2.0c', 'o': '2.0', 'a': '2.0a'}[layout]
    try:
        try:
            with contextlib.redirect_stdout(io.StringIO()):
                res = S.read_sfcf_multi(path, prefix, names, quarks_list=[QUARKS], corr_type_list=[CORRS[n][0] for n in names], noffset_list=[0], wf_list=[0], wf2_list=[0, 1],
                                        version=version, silent=True, keyed_out=keyed)
        except core.Realize:
            raise
        except Exception as e:
            cx.fail('reader raised on a well-formed file set', '%s: %s' % (type(e).__name__, e))
            return
        sel = [list(c) for c in cfgs]
        for n in names:
            for w2 in ([0] if CORRS[n][0] == 'bi' else [0, 1]):
                if keyed:
                    key = S.sep.join([n, QUARKS, '0', '0', str(w2)])
                    if not cx.expect(key in res, 'keyed output has %s' % key.replace(S.sep, '/')):
                        continue
                    got = res[key]
                else:
                    try:
                        got = res[n][QUARKS]['0']['0'][str(w2)]
                    except KeyError as e:
                        cx.fail('nested output lacks %s wf2=%d' % (n, w2), str(e))
                        continue
                compare(cx, got, expected(V, prefix, reps, sel, n, 0, None if CORRS[n][0] == 'bi' else w2, T), 'multi:%s:%s:%d' % (layout, n, w2))
    finally:
        cleanup(cx)
