"""C10 Matrix operations on observable matrices satisfy their defining identities (the part reachable by contracts)."""
import types

import numpy as np
import z3

from symx import core, lib, dual, contracts
from symx.core import SV, tz, Ctx

PROPERTY = 'C10'
OPTS = dict(timeout=120000, maxpaths=20, abs_scale=1e-6)      # replay comparisons against exact 0 / 1 (A inv(A) = 1): rounding noise of order 1e-16 must not count
MODS = ('pyerrors.obs', 'pyerrors.covobs', 'pyerrors.linalg')


def mk_matrix(cx, prefix, n, lays, cplx=False, numbers=(), real_at=(), cobs_real_at=()):
    """n x n matrix of observables; lays: list of layouts cycled over the entries; `numbers`: positions holding plain numbers;
    in a complex matrix `real_at` positions hold a real Obs and `cobs_real_at` positions a CObs whose imaginary part is the plain default 0.0"""
    numbers, real_at, cobs_real_at = [tuple(map(tuple, x)) for x in (numbers, real_at, cobs_real_at)]
    import pyerrors as pe
    M = np.empty((n, n), dtype=object)
    k = 0
    for i in range(n):
        for j in range(n):
            if (i, j) in numbers:
                M[i, j] = 1.5 + i - 0.5 * j
                continue
            lay = lays[k % len(lays)]
            k += 1
            o, _ = lib.mk_obs(cx, '%s%d%d' % (prefix, i, j), lay)
            if cplx and (i, j) in cobs_real_at:
                o = pe.CObs(o)
            elif cplx and (i, j) not in real_at:
                o2, _ = lib.mk_obs(cx, '%s%d%di' % (prefix, i, j), lay)
                o = pe.CObs(o, o2)
            M[i, j] = o
    return M


def explicit_product(mats):
    """sum_k A_ik * B_kj built with the Obs / CObs operators"""
    R = mats[0]
    for B in mats[1:]:
        n = R.shape[0]
        out = np.empty((n, B.shape[1]), dtype=object)
        for i in range(n):
            for j in range(B.shape[1]):
                tot = None
                for k in range(R.shape[1]):
                    t = R[i, k] * B[k, j]
                    tot = t if tot is None else tot + t
                out[i, j] = tot
        R = out
    return R


def equiv(cx, a, b, label):
    import pyerrors as pe
    if isinstance(a, pe.CObs) or isinstance(b, pe.CObs):
        if not cx.expect(isinstance(a, pe.CObs) and isinstance(b, pe.CObs), label + ':type'):
            return
        lib.obs_equiv(cx, a.real, b.real, label + ':re')
        lib.obs_equiv(cx, a.imag, b.imag, label + ':im')
    else:
        if not cx.expect(isinstance(a, pe.Obs), label + ':type', type(a).__name__):
            return
        if not isinstance(b, pe.Obs):
            b = lib.const_spec(b)
        lib.obs_equiv(cx, a, b, label)


def h_matmul(cx, n, nf, lays, cplx=False, numbers=False, covf=None):
    import pyerrors as pe
    lib.sym_env(cx, *MODS)
    # cplx: bool (all factors) or one letter per factor: r real observables, c complex observables, f plain float matrix, z plain complex matrix
    kinds = cplx if isinstance(cplx, str) else ('c' if cplx else 'r') * nf
    mats = []
    for f in range(nf):
        if kinds[f] in 'fz':
            P = np.array([[1.5 + i - 0.5 * j + f for j in range(n)] for i in range(n)])
            mats.append(P if kinds[f] == 'f' else P + 1j * np.array([[0.5 * i + 0.25 * j - 1.0 for j in range(n)] for i in range(n)]))
        else:
            mats.append(mk_matrix(cx, 'ABC'[f], n, lays[f:] + lays[:f], kinds[f] == 'c', numbers=((0, n - 1),) if (numbers and f == 1) else ()))
    if covf:
        # factors flagged in covf carry an external covariance input (one shared 2-dimensional input, gradients symbolic per factor); the others are pure Monte Carlo
        for f in range(nf):
            if covf[f]:
                c, _ = lib.mk_covobs(cx, 'cov%d' % f, 'cv', 2)
                for i in range(n):
                    for j in range(n):
                        mats[f][i, j] = mats[f][i, j] * c if (i + j) % 2 == 0 else mats[f][i, j] + c
    R = pe.linalg.matmul(*mats)
    E = explicit_product(mats)
    cx.expect(R.shape == E.shape, 'shape')
    for i in range(n):
        for j in range(n):
            equiv(cx, R[i, j], E[i, j], 'matmul[%d,%d]' % (i, j))


def _jack(x):
    """leave-one-out means of a list of samples (index 0: mean)"""
    n = len(x)
    tot = sum(x)
    return [tot / n] + [(tot - v) / (n - 1) for v in x]


def _jack_of(s, cfg):
    """jackknife samples of an observable as export_jackknife defines them: slot 0 the central value, slot k = (N value - x_k) / (N - 1) with
    x_k = fluctuation + replica mean (for a derived observable the central value is not the mean of the x_k)"""
    N = len(cfg)
    return [s.value] + [(N * s.value - (s.deltas['e|r1'][c] + s.r_values['e|r1'])) / (N - 1) for c in cfg]


def _entry(cx, tag, lay, derived):
    if derived == 'jack':
        # an observable imported from jackknife samples whose central value (slot 0) is not the mean of its per-configuration data
        import pyerrors as pe
        (name, cfg), = lay.items()
        jk = np.array([cx.real('%s_j%d' % (tag, k)) for k in range(len(cfg) + 1)], dtype=object if cx.mode == 'sym' else float)
        o = pe.import_jackknife(jk, name, [list(cfg)])
        return o, lib.spec_of_obs(o)
    o, s = lib.mk_obs(cx, tag, lay)
    if derived:
        o = o * o + 0.5 * o
        s = lib.derived_spec(lambda x: x[0] * x[0] + 0.5 * x[0], [s])
    return o, s


def h_jack_matmul(cx, n, nf, cfg, derived=False, numeric_at=None):
    """jackknife product: exact central value; fluctuations = those of the pseudo-values of the product of the
    leave-one-out means (the jackknife-linearised product)"""
    import pyerrors as pe
    lib.sym_env(cx, *MODS)
    lay = {'e|r1': cfg}
    mats, raw = [], []
    for f in range(nf):
        if f == numeric_at:
            # a plain-number factor (diagonal, not a multiple of the identity, and a dense one): the same matrix on every jackknife sample
            D = np.diag([1.0, -1.0, 2.0][:n]) if n > 1 else np.array([[2.5]])
            if derived == 'dense':
                D = D + 0.5 * np.ones((n, n))
            mats.append(D)
            raw.append({(i, j): [D[i, j]] * (len(cfg) + 1) for i in range(n) for j in range(n)})
            continue
        M = np.empty((n, n), dtype=object)
        Rw = {}
        for i in range(n):
            for j in range(n):
                o, s = _entry(cx, '%s%d%d' % ('ABC'[f], i, j), lay, derived if derived != 'dense' else False)
                M[i, j] = o
                Rw[(i, j)] = _jack_of(s, cfg)
        mats.append(M)
        raw.append(Rw)
    R = pe.linalg.jack_matmul(*mats)
    N = len(cfg)
    J = [dict(Rw) for Rw in raw]
    # product sample by sample
    cur = J[0]
    for f in range(1, nf):
        nxt = {}
        for i in range(n):
            for j in range(n):
                nxt[(i, j)] = [sum(cur[(i, k)][s] * J[f][(k, j)][s] for k in range(n)) for s in range(N + 1)]
        cur = nxt
    for i in range(n):
        for j in range(n):
            js = cur[(i, j)]
            r = R[i, j]
            lib.check_wellformed(cx, r, 'jack[%d,%d]' % (i, j))
            cx.prove_eq(r.value, js[0], 'jack[%d,%d]: exact central value' % (i, j))
            tot = sum(js[1:])
            pseudo = [tot - (N - 1) * js[c + 1] for c in range(N)]
            mean = sum(pseudo) / N
            for c in range(N):
                cx.prove_eq(r.deltas['e|r1'][c], pseudo[c] - mean, 'jack[%d,%d]: delta[%d]' % (i, j, cfg[c]))
            cx.expect(list(r.idl['e|r1']) == list(cfg), 'jack[%d,%d]: idl' % (i, j))


# ------------------------------------------------------------------ inverse under the LAPACK contract

def install_inv(cx):
    """anp.linalg.inv -> contract stub: X with A X = 1; on dual numbers the differentiated contract dX = -X dA X"""
    import pyerrors.linalg as LA
    import autograd.numpy as anp
    if cx.mode != 'sym':
        return
    memo = {}

    def strip(v, lvl):
        return v.v if isinstance(v, dual.Dual) and v.lvl == lvl else v

    def inv(M):
        M = np.asarray(M, dtype=object)
        if M.ndim == 3:
            return np.array([inv(m) for m in M], dtype=object)
        n = M.shape[0]
        lvls = [e.lvl for e in M.ravel() if isinstance(e, dual.Dual)]
        if not lvls:
            cts = [core.canon(tz(e)) for e in M.ravel()]
            key = tuple(t.get_id() for t in cts)
            cx.keep.append(cts)      # ids are only stable while the terms are alive
            if key not in memo:
                X = np.empty((n, n), dtype=object)
                for idx in np.ndindex(n, n):
                    X[idx] = SV(cx.newvar('inv_c'))
                P = M.dot(X)
                for i in range(n):
                    for j in range(n):
                        cx.fact(tz(P[i, j]) == (1 if i == j else 0))
                memo[key] = X
                cx.inverses = getattr(cx, 'inverses', []) + [(M, X)]
            return memo[key]
        lvl = max(lvls)
        V = np.empty((n, n), dtype=object)
        for idx in np.ndindex(n, n):
            V[idx] = strip(M[idx], lvl)
        X = inv(V)
        dirs = set()
        for e in M.ravel():
            if isinstance(e, dual.Dual) and e.lvl == lvl:
                dirs |= set(e.d)
        out = np.empty((n, n), dtype=object)
        dX = {}
        for d in dirs:
            dA = np.empty((n, n), dtype=object)
            for idx in np.ndindex(n, n):
                e = M[idx]
                dA[idx] = e.d.get(d, 0) if isinstance(e, dual.Dual) and e.lvl == lvl else 0
            dX[d] = -(X.dot(dA).dot(X))
        for idx in np.ndindex(n, n):
            out[idx] = dual.Dual(X[idx], {d: dX[d][idx] for d in dirs}, lvl)
        return out
    la = types.SimpleNamespace(**{k: getattr(anp.linalg, k) for k in dir(anp.linalg) if not k.startswith('_')})
    la.inv = inv
    shim = types.SimpleNamespace(**{k: getattr(anp, k) for k in dir(anp) if not k.startswith('__')})
    shim.linalg = la
    cx.patch(LA, 'anp', shim)


class _FloatLike(np.ndarray):
    """object array of symbolic reals that reports the dtype numpy would have given to real data (the einsum wrapper dispatches on it)"""
    @property
    def dtype(self):
        return np.dtype(float)


def _einsum_explicit(subs, ops):
    """Einstein summation written out: loops over every index value (two-dimensional operands)"""
    import itertools
    ins, out = subs.split('->')
    ins = ins.split(',')
    dims = {}
    for lab, op in zip(ins, ops):
        for ax, ch in enumerate(lab):
            dims[ch] = op.shape[ax]
    letters = sorted(dims)
    res = {}
    for vals in itertools.product(*[range(dims[c]) for c in letters]):
        env = dict(zip(letters, vals))
        term = 1
        for lab, op in zip(ins, ops):
            term = term * op[tuple(env[c] for c in lab)]
        key = tuple(env[c] for c in out)
        res[key] = res.get(key, 0) + term
    return res


def h_einsum(cx, subs, shapes, cfg, derived=False):
    """linalg.einsum (jackknife based): exact central value, fluctuations = those of the pseudo-values of the sample-wise Einstein sum.
    numpy.einsum itself runs on the object arrays of jackknife samples; only its result is given the float dtype the wrapper dispatches on."""
    import pyerrors as pe
    import pyerrors.linalg as LA
    lib.sym_env(cx, *MODS)
    if cx.mode == 'sym':
        sh = vars(LA)['np']
        real_einsum = np.einsum
        cx.patch(sh, 'einsum', lambda *a, **k: np.asarray(real_einsum(*a, **k), dtype=object).view(_FloatLike))
    lay = {'e|r1': cfg}
    N = len(cfg)
    mats, J = [], []
    for f, shp in enumerate(shapes):
        M = np.empty(tuple(shp), dtype=object)
        Jf = np.empty(tuple(shp), dtype=object)
        for idx in np.ndindex(*shp):
            o, s = _entry(cx, '%s%s' % ('ABC'[f], ''.join(map(str, idx))), lay, derived)
            M[idx] = o
            Jf[idx] = _jack_of(s, cfg)
        mats.append(M)
        J.append(Jf)
    R = pe.linalg.einsum(subs, *mats)
    per_sample = []
    for smp in range(N + 1):
        ops = []
        for Jf in J:
            A = np.empty(Jf.shape, dtype=object)
            for idx in np.ndindex(*Jf.shape):
                A[idx] = Jf[idx][smp]
            ops.append(A)
        per_sample.append(_einsum_explicit(subs, ops))
    keys = sorted(per_sample[0])
    if keys == [()]:
        got = {(): R}
        cx.expect(isinstance(R, pe.Obs), 'scalar result is an Obs')
    else:
        got = {k: R[k] for k in keys}
    for k in keys:
        r = got[k]
        js = [ps[k] for ps in per_sample]
        if not lib.check_wellformed(cx, r, 'einsum%s' % (list(k),)):
            continue
        cx.prove_eq(r.value, js[0], 'einsum%s: exact central value' % (list(k),))
        tot = sum(js[1:])
        pseudo = [tot - (N - 1) * js[c + 1] for c in range(N)]
        mean = sum(pseudo) / N
        for c in range(N):
            cx.prove_eq(r.deltas['e|r1'][c], pseudo[c] - mean, 'einsum%s: delta[%d]' % (list(k), cfg[c]))
        cx.expect(list(r.idl['e|r1']) == list(cfg), 'einsum%s: idl' % (list(k),))


def h_inv(cx, n, lays, cplx=False, numbers=False, e2e=False, real_at=(), cobs_real_at=()):
    """inv() under the contract "anp.linalg.inv returns X with M X = 1 (dX = -X dM X)".
    Decomposed (the bilinear end-to-end identity A inv(A) = 1 with all fluctuations is beyond nlsat for n >= 2):
    (M) the matrix handed to the library is A, resp. the real embedding [[A,-B],[B,A]] of A + iB;
    (V) the result entries carry X[i,j], resp. X[i,j] + i X[n+i,j];
    (C) every fluctuation / gradient of result entry (i,j) is -(X dM X)[i,j] (resp. the [n+i,j] entry for the imaginary part), dM the
        embedded fluctuation of the entries of M on that configuration.
    With M X = 1 these give A inv(A) = inv(A) A = 1 in value and in every fluctuation (d(MX) = 0), and for the complex case the block
    rows 1 and 2 of M X = 1 are exactly Re and Im of (A + iB)(C + iD) = 1.  `e2e`: additionally the end-to-end identity (1x1 real)."""
    import pyerrors as pe
    lib.sym_env(cx, *MODS)
    install_inv(cx)
    A = mk_matrix(cx, 'A', n, lays, cplx, numbers=((n - 1, 0),) if numbers and n > 1 else (), real_at=real_at, cobs_real_at=cobs_real_at)
    R = pe.linalg.inv(A)
    cx.expect(R.shape == (n, n), 'shape')
    if cx.mode == 'sym':
        invs = getattr(cx, 'inverses', [])
        # the first call is the one on the central values (further calls evaluate the replica means)
        if not cx.expect(len(invs) >= 1, 'inverse taken', str(len(invs))):
            return
        M, X = invs[0]
        N = 2 * n if cplx else n
        cx.expect(M.shape == (N, N), 'size of the matrix handed to inv')

        def part(e, im):
            if isinstance(e, pe.CObs):
                return e.imag if im else e.real
            return 0.0 if im else e
        # entries of the embedding as observables / numbers
        Mobs = np.empty((N, N), dtype=object)
        for i in range(n):
            for j in range(n):
                if cplx:
                    Mobs[i, j] = part(A[i, j], 0)
                    Mobs[n + i, n + j] = part(A[i, j], 0)
                    Mobs[n + i, j] = part(A[i, j], 1)
                    Mobs[i, n + j] = ('neg', part(A[i, j], 1))
                else:
                    Mobs[i, j] = A[i, j]

        def val(e):
            if isinstance(e, tuple):
                return -val(e[1])
            return e.value if isinstance(e, pe.Obs) else e
        for i in range(N):
            for j in range(N):
                cx.prove_eq(M[i, j], val(Mobs[i, j]), '(M) matrix handed to inv[%d,%d]' % (i, j), use_facts=False)
        specs = []
        flat = []
        for i in range(N):
            for j in range(N):
                e = Mobs[i, j]
                sign = 1
                if isinstance(e, tuple):
                    sign, e = -1, e[1]
                flat.append((i, j, sign, lib.spec_of_obs(e) if isinstance(e, pe.Obs) else lib.const_spec(e)))
        from props import fitlib
        comps, idl = fitlib.components([f[3] for f in flat])
        for i in range(n):
            for j in range(n):
                r = R[i, j]
                parts = [(r.real, i, 're'), (r.imag, n + i, 'im')] if cplx else [(r, i, '')]
                for ro, row, tag in parts:
                    cx.prove_eq(ro.value, X[row, j], '(V) inv[%d,%d]%s value' % (i, j, tag), use_facts=False)
                    rs = lib.spec_of_obs(ro)
                    emb = lib.embed(rs, idl, None)
                    for lab, dcomp in comps:
                        dM = np.zeros((N, N), dtype=object)
                        for (a, b_, sign, _), d in zip(flat, dcomp):
                            dM[a, b_] = sign * d
                        want = -sum(X[row, a] * dM[a, b_] * X[b_, j] for a in range(N) for b_ in range(N))
                        if lab.startswith('delta['):
                            nm = lab[6:lab.index(']')]
                            cf = int(lab[lab.rindex('[') + 1:-1])
                            got = emb[nm][cf] if nm in emb else 0
                        else:
                            cn = lab[5:lab.index(']')]
                            k = int(lab[lab.rindex('[') + 1:-1])
                            got = rs.grads[cn][k] if cn in rs.grads else 0
                        cx.prove_eq(got, want, '(C) d inv[%d,%d]%s = -(X dM X) %s' % (i, j, tag, lab), use_facts=False)
    if cx.mode == 'conc' or e2e:
        P = explicit_product([A, R])
        Q = explicit_product([R, A])
        for i in range(n):
            for j in range(n):
                unit = 1.0 if i == j else 0.0
                for name, prod in (('A inv(A)', P), ('inv(A) A', Q)):
                    e = prod[i, j]
                    if cplx:
                        if not cx.expect(isinstance(e, pe.CObs), '%s[%d,%d]:type' % (name, i, j)):
                            continue
                        lib.obs_equiv(cx, e.real, lib.const_spec(unit), '%s[%d,%d]:re' % (name, i, j))
                        lib.obs_equiv(cx, e.imag, lib.const_spec(0.0), '%s[%d,%d]:im' % (name, i, j))
                    else:
                        lib.obs_equiv(cx, e, lib.const_spec(unit), '%s[%d,%d]' % (name, i, j))


def _leibniz(M):
    """determinant by the Leibniz formula (the definition); entries may be symbolic reals or dual numbers, so the derivative comes out by the product rule"""
    import itertools
    M = np.asarray(M, dtype=object)
    n = M.shape[0]
    tot = 0
    for p in itertools.permutations(range(n)):
        sgn = 1
        for i in range(n):
            for j in range(i + 1, n):
                if p[i] > p[j]:
                    sgn = -sgn
        term = sgn
        for i in range(n):
            term = term * M[i, p[i]]
        tot = tot + term
    return tot


def h_det(cx, n, lays, numbers=(), int_first=False):
    """linalg.det equals the cofactor (Leibniz) expansion built with the Obs operators, as an identity between observables.
    anp.linalg.det is replaced by the Leibniz polynomial on symbolic / dual entries (its definition); numbers: positions holding plain numbers"""
    import pyerrors as pe
    import pyerrors.linalg as LA
    import autograd.numpy as anp
    lib.sym_env(cx, *MODS)
    if cx.mode == 'sym':
        la = types.SimpleNamespace(**{k: getattr(anp.linalg, k) for k in dir(anp.linalg) if not k.startswith('_')})
        la.det = _leibniz
        shim = types.SimpleNamespace(**{k: getattr(anp, k) for k in dir(anp) if not k.startswith('__')})
        shim.linalg = la
        cx.patch(LA, 'anp', shim)
    A = mk_matrix(cx, 'A', n, lays, numbers=numbers)
    if int_first:
        A[0, 0] = 2            # a plain Python int as first entry (numpy infers dtypes from first elements)
    r = pe.linalg.det(A)
    import itertools
    tot = None
    for p in itertools.permutations(range(n)):
        sgn = 1
        for i in range(n):
            for j in range(i + 1, n):
                if p[i] > p[j]:
                    sgn = -sgn
        term = None
        for i in range(n):
            term = A[i, p[i]] if term is None else term * A[i, p[i]]
        term = term * sgn
        tot = term if tot is None else tot + term
    equiv(cx, r, tot, 'det = cofactor expansion')


def h_scalar_op(cx, n, lays):
    """_scalar_mat_op reassembles the raveled observables row-major: a probe operator picking element (i,j) returns that entry"""
    import pyerrors as pe
    import pyerrors.linalg as LA
    lib.sym_env(cx, *MODS)
    A = mk_matrix(cx, 'A', n, lays)
    for i in range(n):
        for j in range(n):
            r = LA._scalar_mat_op(lambda m, i=i, j=j: m[i, j] * 1, A)
            equiv(cx, r, A[i, j], 'probe[%d,%d]' % (i, j))
    w = np.array([[0.5 + i - 0.25 * j for j in range(n)] for i in range(n)])
    r = LA._scalar_mat_op(lambda m: sum(w[i, j] * m[i, j] for i in range(n) for j in range(n)), A)
    tot = None
    for i in range(n):
        for j in range(n):
            t = A[i, j] * w[i, j]
            tot = t if tot is None else tot + t
    equiv(cx, r, tot, 'weighted-sum')


def h_array_mode(cx, lays):
    """derived_observable(array_mode=True) with two operand matrices: elementwise formula"""
    import pyerrors as pe
    lib.sym_env(cx, *MODS)
    A = mk_matrix(cx, 'A', 2, lays)
    B = mk_matrix(cx, 'B', 2, lays[1:] + lays[:1])
    R = pe.derived_observable(lambda x, **kw: x[0] @ x[1] - 2 * x[1], [A, B], array_mode=True)
    E = explicit_product([A, B])
    for i in range(2):
        for j in range(2):
            equiv(cx, R[i, j], E[i, j] - 2 * B[i, j], 'array_mode[%d,%d]' % (i, j))


HARNESSES = dict(matmul=h_matmul, jack_matmul=h_jack_matmul, inv=h_inv, scalar_op=h_scalar_op, det=h_det, einsum=h_einsum, array_mode=h_array_mode)


def jobs(tier, seed):
    J = []

    def add(h, **p):
        J.append(dict(harness=h, params=p))
    E = {'e|r1': [1, 2, 3, 4, 5]}
    Ei = {'e|r1': [1, 2, 4, 5, 6]}
    F_ = {'f|r1': [2, 4, 6, 8, 10]}
    M2 = {'e|r1': [1, 2, 3, 4, 5], 'e|r2': [1, 2, 3, 4, 5, 6]}
    R1 = {'e|r1': [1, 2, 3, 4, 5]}
    # entries of one matrix on different replica subsets of the same ensemble
    add('matmul', n=2, nf=2, lays=[M2, R1])
    add('matmul', n=2, nf=2, lays=[R1, M2, F_], numbers=True)
    add('inv', n=2, lays=[M2, R1])
    add('array_mode', lays=[M2, R1])      # same per-replica configuration sets: splitting the expression must not matter
    add('matmul', n=1, nf=2, lays=[E, Ei])
    add('matmul', n=2, nf=2, lays=[E])
    add('matmul', n=2, nf=2, lays=[E, Ei, F_])
    add('matmul', n=2, nf=3, lays=[E, F_])
    add('matmul', n=2, nf=2, lays=[E, F_], numbers=True)
    add('matmul', n=1, nf=2, lays=[E, Ei], cplx=True)
    add('matmul', n=2, nf=2, lays=[E, F_], cplx=True)
    add('matmul', n=2, nf=3, lays=[E], cplx=True)
    # covariance inputs on some factors only, in every position
    for covf in ([False, True], [True, False], [True, True]):
        add('matmul', n=2, nf=2, lays=[E, F_], covf=covf)
    add('matmul', n=2, nf=3, lays=[E], covf=[True, False, True])
    add('matmul', n=2, nf=3, lays=[E], covf=[False, False, True])
    # real, complex and plain factors in every neighbouring order
    for kinds in ('rc', 'cr', 'fc', 'cf', 'cz'):      # a plain complex factor next to real observables only is outside the statement (raises AttributeError)
        add('matmul', n=2, nf=2, lays=[E, F_], cplx=kinds)
    for kinds in ('rcr', 'crc', 'cfc', 'rrc'):
        add('matmul', n=2, nf=3, lays=[E], cplx=kinds)
    add('jack_matmul', n=1, nf=2, cfg=[1, 2, 3, 4, 5])
    add('jack_matmul', n=2, nf=2, cfg=[1, 2, 3, 4, 5])
    add('jack_matmul', n=2, nf=2, cfg=[2, 4, 6, 8, 10, 12])
    add('jack_matmul', n=1, nf=3, cfg=[1, 2, 4, 5, 7])
    add('inv', n=1, lays=[E], e2e=True)
    add('inv', n=2, lays=[E])
    add('inv', n=2, lays=[E, Ei, F_])
    add('inv', n=2, lays=[E, F_], numbers=True)
    add('inv', n=1, lays=[E, F_], cplx=True)
    add('inv', n=2, lays=[E], cplx=True)
    add('inv', n=2, lays=[E], cplx=True, real_at=[[0, 0], [1, 1]])           # Hermitian-like: real observables on the diagonal
    add('inv', n=2, lays=[E, F_], cplx=True, cobs_real_at=[[0, 0]])           # first entry a CObs with the plain default imaginary part
    add('inv', n=2, lays=[E], cplx=True, real_at=[[1, 0]], numbers=False)
    add('scalar_op', n=2, lays=[E, Ei, F_])
    add('scalar_op', n=3, lays=[E, F_])
    # determinant = cofactor expansion (Leibniz polynomial stands for anp.linalg.det; derivative by the product rule on dual numbers)
    # jackknife based Einstein summation: subscripts get the sample axis appended; matrix product, A B^T, full contraction, three operands
    add('einsum', subs='ij,jk->ik', shapes=[[2, 2], [2, 2]], cfg=[1, 2, 3, 4, 5])
    add('einsum', subs='ij,kj->ik', shapes=[[2, 3], [1, 3]], cfg=[2, 4, 6, 8, 10])
    add('einsum', subs='ij,ji->', shapes=[[2, 2], [2, 2]], cfg=[1, 2, 3, 5, 6])
    add('einsum', subs='ij,jk->ik', shapes=[[1, 2], [2, 1]], cfg=[1, 2, 3, 4, 5], derived=True)      # entries that are non-linear functions of their data: central value != mean of the samples
    add('jack_matmul', n=1, nf=2, cfg=[1, 2, 3, 4, 5], derived=True)
    add('einsum', subs='ij,jk->ik', shapes=[[1, 2], [2, 1]], cfg=[1, 2, 3, 4, 5], derived='jack')
    add('jack_matmul', n=1, nf=2, cfg=[1, 2, 3, 4, 5], derived='jack')
    add('jack_matmul', n=2, nf=2, cfg=[1, 2, 3, 4, 5], numeric_at=1)             # plain-number factors in every position
    add('jack_matmul', n=2, nf=3, cfg=[1, 2, 3, 4, 5], numeric_at=1)
    add('jack_matmul', n=2, nf=3, cfg=[1, 2, 3, 4, 5], numeric_at=2, derived='dense')        # (a plain-number matrix as FIRST factor is not supported by jack_matmul: the chain name is taken from it)
    add('einsum', subs='ij,jk,kl->il', shapes=[[1, 2], [2, 2], [2, 1]], cfg=[1, 2, 3, 4, 5])
    add('det', n=1, lays=[E])
    add('det', n=2, lays=[E, Ei, F_])
    add('det', n=2, lays=[E, F_], numbers=[[1, 0]])
    add('det', n=2, lays=[E, F_], int_first=True)
    add('det', n=3, lays=[E, F_])
    add('det', n=3, lays=[M2, R1, E], numbers=[[0, 2], [2, 0]])
    add('array_mode', lays=[E, Ei, F_])
    if tier == 'thorough':
        add('matmul', n=3, nf=2, lays=[E, Ei, F_])
        add('matmul', n=3, nf=3, lays=[E])
        add('inv', n=3, lays=[E, F_])
        add('inv', n=2, lays=[E, F_], cplx=True)
        add('jack_matmul', n=3, nf=2, cfg=[1, 2, 3, 4, 5])
    return J


def apply_canary(name):
    from symx.mutate import mutate
    if name == 'complex-cross-term':
        return mutate('pyerrors.linalg', 'matmul', 'tmp_i = stack_r @ op_i + stack_i @ op_r', 'tmp_i = stack_r @ op_i - stack_i @ op_r')
    if name == 'block-sign':
        return mutate('pyerrors.linalg', '_mat_mat_op', 'big_matrix = np.block([[A, -B], [B, A]])', 'big_matrix = np.block([[A, B], [-B, A]])')
    if name == 'op-b-slice':
        return mutate('pyerrors.linalg', '_mat_mat_op', 'op_B = op_big_matrix[dim // 2:, 0: dim // 2]', 'op_B = op_big_matrix[0: dim // 2, dim // 2:]')
    if name == 'row-major':
        return mutate('pyerrors.linalg', '_scalar_mat_op', 'row.append(x[j + dim * i])', 'row.append(x[i + dim * j])')
    raise KeyError(name)


def _cj(h, **p):
    return lambda tier, seed: [dict(harness=h, params=p)]


_E = {'e|r1': [1, 2, 3, 4, 5]}
_F = {'f|r1': [2, 4, 6, 8, 10]}
CANARIES = [
    dict(name='complex-cross-term', what='sign of a real/imaginary cross term in matmul', quick=True, jobs=_cj('matmul', n=1, nf=2, lays=[_E, _F], cplx=True)),
    dict(name='block-sign', what='sign convention of the real block embedding', jobs=_cj('inv', n=1, lays=[_E, _F], cplx=True)),
    dict(name='op-b-slice', what='imaginary part taken from the wrong block', jobs=_cj('inv', n=1, lays=[_E, _F], cplx=True)),
    dict(name='row-major', what='row-major reassembly in _scalar_mat_op', jobs=_cj('scalar_op', n=2, lays=[_E, _F])),
]

META = dict(
    explanation='C10 (the part reachable under contracts): linalg.matmul (real and complex, 2-3 factors, plain numbers mixed in) and derived_observable(array_mode=True) are proven equal, '
                'modulo the library\'s embedding, to the explicit sum of element products built with the Obs/CObs operators; jack_matmul has the exact central value and the fluctuations '
                'of the jackknife pseudo-values of the sample-wise product; inv() satisfies A inv(A) = inv(A) A = 1 as an identity between observables (value and every fluctuation) '
                'under the contract "anp.linalg.inv returns X with A X = 1, differentiated dX = -X dA X", which decides the [[A,-B],[B,A]] embedding and the op_A/op_B extraction for complex '
                'matrices; _scalar_mat_op reassembles row-major (probe operator); det equals the cofactor expansion (Leibniz polynomial for anp.linalg.det, n <= 3); einsum (real operands; matrix product, A B^T, full contraction, three factors) has the exact central value and the jackknife pseudo-value fluctuations of the sample-wise Einstein sum.',
    bounds='1x1 and 2x2 (thorough 3x3) matrices, 2-3 factors, real and complex entries, entries on 1-2 ensembles with regular / irregular lists of 5 configurations, one plain-number entry.',
    outside=['cholesky, eigh, eig, eigv, pinv, svd identities: LAPACK decompositions with autograd vjps cannot be encoded (not applicable); det is covered for n <= 3 as a polynomial',
             'einsum with complex (CObs) operands (the real case is covered: numpy.einsum runs on the object arrays of jackknife samples, its result is given the float dtype the wrapper dispatches on)', 'the O(1/N) statement about jackknife fluctuations is not an SMT statement'],
    stubs=['numpy shim', 'autograd.jacobian -> dual numbers', 'anp.linalg.inv -> fresh X with A X = 1 and dX = -X dA X'],
    assumptions=['matrices handed to inv are regular'],
)
