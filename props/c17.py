"""C17 File readers return exactly the stored numbers at the right configurations (openQCD binary formats)."""
import itertools

from props import readers, sfcf, hadrons
from props.readers import h_read  # noqa

HARNESSES = dict(read=h_read, sfcf=sfcf.h_read, sfcf_multi=sfcf.h_multi, hd5=hadrons.h_hd5)

PROPERTY = 'C17'
OPTS = dict(timeout=60000, maxpaths=200)


def jobs(tier, seed):
    J = []

    def add(**p):
        J.append(dict(harness='read', params=p))
    for fmt in ('rwms14', 'rwms16', 'rwms20', 'qtop', 'ms5'):
        add(fmt=fmt, reps=['r0'], nrec=[5], first=[1], step=[1])
        add(fmt=fmt, reps=['r0', 'r1'], nrec=[5, 6], first=[1, 1], step=[1, 1])
        # every directory-listing permutation, replica numbers with different digit counts
        for perm in itertools.permutations(range(3)):
            if tier == 'quick' and perm not in ((0, 1, 2), (2, 0, 1), (1, 2, 0)):
                continue
            add(fmt=fmt, reps=['r2', 'r10', 'r1'], nrec=[5, 5, 6], first=[1, 1, 1], step=[1, 1, 1], listing=list(perm))
    for zeu in (False, True):
        add(fmt='sfqcd', reps=['r0'], nrec=[5], first=[1], step=[1], p=dict(ncs=2, tmax=2, index_aim=1, zeuthen=zeu))
    add(fmt='sfqcd', reps=['r1', 'r0'], nrec=[5, 6], first=[2, 2], step=[2, 2], p=dict(ncs=1, tmax=3, index_aim=0))
    add(fmt='sfqcd', reps=['r0'], nrec=[6], first=[1], step=[1], p=dict(ncs=2, tmax=1, index_aim=2))
    # measurement spacing and first configuration
    for fmt in ('rwms16', 'rwms20', 'qtop'):
        add(fmt=fmt, reps=['r0'], nrec=[6], first=[2], step=[2])
        add(fmt=fmt, reps=['r0', 'r1'], nrec=[5, 5], first=[4, 10], step=[4, 10])
    add(fmt='ms5', reps=['r0'], nrec=[6], first=[10], step=[10])
    add(fmt='ms5', reps=['r0', 'r1'], nrec=[5, 6], first=[3, 1], step=[2, 1])
    # several factors / sources / flow times / correlators
    add(fmt='rwms16', reps=['r0'], nrec=[5], first=[1], step=[1], p=dict(nrw=2, nfct=2, nsrc=1))
    add(fmt='rwms16', reps=['r0', 'r1'], nrec=[5, 5], first=[1, 1], step=[1, 1], p=dict(nrw=1, nfct=2, nsrc=3))
    add(fmt='rwms20', reps=['r0'], nrec=[5], first=[1], step=[1], p=dict(nrw=2, nfct=2, nsrc=2))
    add(fmt='rwms14', reps=['r0'], nrec=[5], first=[1], step=[1], p=dict(nrw=2, nsrc=3))
    for ia in (0, 1, 2):
        add(fmt='qtop', reps=['r0'], nrec=[5], first=[1], step=[1], p=dict(nn=2, tmax=3, index_aim=ia))
    for corr in ('gS', 'gA', 'lTt', 'g1', 'l1'):
        add(fmt='ms5', reps=['r0'], nrec=[5], first=[1], step=[1], p=dict(tmax=2, corr=corr))
    # selections
    for fmt in ('rwms16', 'qtop'):
        add(fmt=fmt, reps=['r0'], nrec=[8], first=[1], step=[1], sel=dict(r_start=[2], r_stop=[7]))
        add(fmt=fmt, reps=['r0', 'r1'], nrec=[8, 7], first=[1, 1], step=[1, 1], sel=dict(r_start=[3, None], r_stop=[8, 6]))
    # files that start after a thermalisation phase (first label a multiple > 1 of the spacing): configurations are counted from 1, selections refer to these numbers
    for fmt in ('qtop', 'rwms16', 'rwms20', 'sfqcd'):
        pp = dict(p=dict(ncs=1, tmax=2, index_aim=1)) if fmt == 'sfqcd' else {}
        add(fmt=fmt, reps=['r0'], nrec=[7], first=[6], step=[2], **pp)
        add(fmt=fmt, reps=['r0'], nrec=[8], first=[9], step=[3], sel=dict(r_start=[2], r_stop=[7]), **pp)
        add(fmt=fmt, reps=['r0', 'r1'], nrec=[8, 7], first=[4, 10], step=[2, 5], sel=dict(r_start=[None, 2], r_stop=[6, None]), **pp)
    # the energy-density extraction behind extract_t0 / extract_w0 (same files as the flow reader): values per flow time, configuration numbers
    # (records one trajectory apart after a thermalisation phase included), selections, timeslice window, plaquette definition
    add(fmt='edens', reps=['r0'], nrec=[5], first=[1], step=[1])
    add(fmt='edens', reps=['r0', 'r1'], nrec=[6, 5], first=[7, 1], step=[1, 1])
    add(fmt='edens', reps=['r0'], nrec=[8], first=[7], step=[1], sel=dict(r_start=[2], r_stop=[7]))
    add(fmt='edens', reps=['r0'], nrec=[6], first=[6], step=[2], p=dict(nn=2, tmax=4, xmin=1))
    add(fmt='edens', reps=['r2', 'r10', 'r1'], nrec=[5, 5, 6], first=[1, 1, 1], step=[1, 1, 1], listing=[1, 2, 0], p=dict(plaquette=True))
    # explicit chain names (names=): assigned in the numeric order of the replica numbers, whatever the listing order
    for fmt in ('rwms16', 'qtop', 'ms5', 'sfqcd'):
        pp = dict(p=dict(ncs=1, tmax=2, index_aim=1)) if fmt == 'sfqcd' else {}
        add(fmt=fmt, reps=['r2', 'r10', 'r1'], nrec=[5, 5, 6], first=[1, 1, 1], step=[1, 1, 1], listing=[2, 0, 1], sel=dict(names=['A|x1', 'A|x2', 'A|x10']), **pp)
    add(fmt='rwms16', reps=['r0'], nrec=[12], first=[1], step=[1], sel=dict(r_start=[2], r_stop=[12], r_step=2))
    add(fmt='rwms20', reps=['r0'], nrec=[11], first=[1], step=[1], sel=dict(r_stop=[11], r_step=2))
    # sfcf text formats: compact, folder and appended layout; every requested correlator kind; shuffled listings; replica numbers r2 / r10
    R2 = dict(reps=['r0', 'r1'], cfgs=[[1, 2, 3, 4, 5], [2, 4, 6, 8, 10, 12]])
    R3 = dict(reps=['r2', 'r10', 'r1'], cfgs=[[1, 2, 3, 4, 5], [1, 2, 3, 4, 5, 6], [11, 12, 13, 14, 15]])
    for lay in 'coa':
        names = ['f_A', 'f_1', 'F_V0']
        for req in (('f_A', 0, None), ('f_A', 1, None), ('f_1', 0, 0), ('f_1', 0, 1), ('F_V0', 0, 1)):
            J.append(dict(harness='sfcf', params=dict(layout=lay, names=names, req=list(req), perm=1 + len(req[0]) + req[1], **R2)))
        J.append(dict(harness='sfcf', params=dict(layout=lay, names=names, req=['F_V0', 0, 0], perm=2, im=True, T=3, **R2)))
        for perm in (0, 5, 11):
            J.append(dict(harness='sfcf', params=dict(layout=lay, names=['f_A', 'f_1'], req=['f_A', 0, None], perm=perm, **R3)))
        J.append(dict(harness='sfcf', params=dict(layout=lay, names=['f_A', 'f_1'], req=['f_1', 0, 0], perm=3, ens_name='ens', **R2)))      # ensemble name given by the caller
        for keyed in (False, True):
            J.append(dict(harness='sfcf_multi', params=dict(layout=lay, perm=7, keyed=keyed, **R2)))
        if lay != 'a':
            for fo in ('lex', 'desc'):
                J.append(dict(harness='sfcf', params=dict(layout=lay, names=['f_A', 'f_1'], req=['f_A', 0, None], perm=2, files=fo, reps=['r0', 'r1'], cfgs=[list(range(7, 13)), list(range(8, 14))])))
            J.append(dict(harness='sfcf', params=dict(layout=lay, names=['f_A', 'f_1'], req=['f_A', 0, None], perm=4, files=True, reps=['r0', 'r1'], cfgs=[list(range(1, 11)), list(range(1, 12))])))
    J.extend(hadrons.jobs(tier))
    return J


def apply_canary(name):
    from symx.mutate import mutate
    if name == 'second-block':
        return mutate('pyerrors.input.openQCD', 'read_rwms', "                            t = fp.read(8 * nsrc[i])\n                            t = fp.read(8 * nsrc[i])\n", "                            t = fp.read(8 * nsrc[i])\n                            fp.read(8 * nsrc[i])\n")
    if name == 'stop-index':
        return mutate('pyerrors.input.openQCD', 'read_rwms', 'deltas[k].append(tmp_array[k][r_start_index[rep]:r_stop_index[rep] + 1][::r_step])', 'deltas[k].append(tmp_array[k][r_start_index[rep]:r_stop_index[rep]][::r_step])')
    if name == 'flow-block':
        return mutate('pyerrors.input.openQCD', '_read_flow_obs', "Q_top.append(Q_sum[dtr_cnfg * i][index_aim])", "Q_top.append(Q_sum[dtr_cnfg * i][index_aim - 1])")
    if name == 'hd5-lexsort':
        return mutate('pyerrors.input.hadrons', '_get_files', 'files.sort(key=get_cnfg_number)', 'files.sort()')
    if name == 'hd5-entry':
        return mutate('pyerrors.input.hadrons', 'read_hd5', 'entry = group + f"_{attrs}"', 'entry = group + "_0"')
    raise KeyError(name)


def _cj(**p):
    return lambda tier, seed: [dict(harness='read', params=p)]


CANARIES = [
    dict(name='hd5-lexsort', what='hdf5 files ordered lexicographically instead of by configuration number', jobs=lambda tier, seed: [dict(harness='hd5', params=dict(cfgs=[8, 9, 10, 11, 12], perm=7, entry=1))]),
    dict(name='hd5-entry', what='hdf5 entry index ignored', jobs=lambda tier, seed: [dict(harness='hd5', params=dict(cfgs=[1, 2, 3, 4, 5], entry=1, how='index'))]),
    dict(name='second-block', what='wrong block of a reweighting record used', quick=True, jobs=_cj(fmt='rwms16', reps=['r0'], nrec=[5], first=[1], step=[1])),
    dict(name='stop-index', what='off-by-one in r_stop', jobs=_cj(fmt='rwms16', reps=['r0'], nrec=[8], first=[1], step=[1], sel=dict(r_start=[2], r_stop=[7]))),
    dict(name='flow-block', what='wrong flow time selected', jobs=_cj(fmt='qtop', reps=['r0'], nrec=[5], first=[1], step=[1], p=dict(nn=2, tmax=3, index_aim=1))),
]

META = dict(
    explanation='C17 (openQCD binary formats and sfcf text formats): read_sfcf (2.0 / 2.0c / 2.0a) runs on a tagged-token text model (props/sfcf.py: every stored number is a distinct decimal token standing for a symbol; regular expressions, line counting, fnmatch and sorting run on the concrete text; listings come from an in-memory tree in shuffled order). read_rwms (1.4 / 1.6 / 2.0 incl. _read_array_openQCD2), read_qtop / _read_flow_obs (openQCD and sfqcd flow files), read_ms5_xsf, _find_files and sort_names run '
                'on a typed-buffer file model in which every stored double is a distinct symbol (a mis-assignment can never cancel). The observables returned must carry, per replica name derived from '
                'the file name and per configuration number, exactly the documented reduction of the symbols of that record (product over factors of the source average of exp(-x), timeslice sum at the '
                'selected flow time, real / imaginary part of the selected correlator).',
    bounds='1-3 replicas (suffixes with different digit counts, every / 3 directory-listing permutations), 5-12 records, first configuration and spacing from {1,2,3,4,10}, 1-2 factors, 1-3 sources, 1-2 reweighting '
           'factors, 3 flow times x 3 timeslices, 5 of the 12 ms5_xsf correlators; r_start / r_stop / r_step selections. sfcf: 2-3 replicas (r2 / r10 / r1), 5-11 configurations, T = 2-3, correlators f_A (bi, wf 0/1), f_1 (bb, wf2 0/1), F_V0 (bib, wf2 0/1), real / imaginary part, explicit file lists.',
    outside=['Hadrons hdf5: read_hd5 / read_meson_hd5 are covered on a structural model of h5py (props/hadrons.py); the other hdf5 readers (DistillationContraction, ExternalLeg, Bilinear, Fourquark, extract_t0_hd5) are not', 'sfcf version 0.0, read_sfcf_multi with several names in one call', 'extract_t0 / extract_w0 beyond their fit contract', 'real file system'],
    stubs=['open / fp.read / struct.unpack / struct.unpack_from / os.walk -> typed-buffer file model', 'hdf5: h5py.File / os.listdir / np.array of per-file complex arrays -> tree-of-groups model with symbolic complex datasets (replay writes real hdf5 files with h5py)', 'sfcf: open / os.walk -> in-memory text tree, float -> token table', 'numpy shim', 'exp uninterpreted'],
    assumptions=[],
)
