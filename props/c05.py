"""C05 Reweighting, correlating and merging pair samples by configuration number."""
import numpy as np

from symx import core, lib, layouts
from symx.core import If

PROPERTY = 'C05'
OPTS = dict(timeout=60000, maxpaths=300)
MODS = ('pyerrors.obs', 'pyerrors.covobs', 'pyerrors.correlators', 'pyerrors.input.openQCD')


def _sub(d, keys):
    return {k: d[k] for k in keys}


def reweight_spec(wsmp, osmp, all_configs):
    """<w o>/<w> on o's configurations, pairing samples by (replica, configuration number)"""
    prod = {n: {c: wsmp[n][c] * osmp[n][c] for c in osmp[n]} for n in osmp}
    num = lib.primary_spec(prod)
    if all_configs:
        den = lib.primary_spec(wsmp)
    else:
        den = lib.primary_spec({n: {c: wsmp[n][c] for c in osmp[n]} for n in osmp})
    s = lib.derived_spec(lambda x: x[0] / x[1], [num, den])
    s.reweighted = True
    return s


def _mk_raw(cx, prefix, layout):
    import pyerrors as pe
    smp = lib.mk_samples(cx, prefix, layout)
    names = list(layout)
    arrs = [np.array([smp[n][c] for c in layout[n]], dtype=object if cx.mode == 'sym' else float) for n in names]
    return pe.Obs(arrs, names, idl=[list(layout[n]) for n in names]), smp


def h_reweight(cx, lw, lo_list, all_configs, method):
    import pyerrors as pe
    lib.sym_env(cx, *MODS)
    w, wsmp = _mk_raw(cx, 'w', lw)
    obs, smps = [], []
    for i, lo in enumerate(lo_list):
        o, osmp = _mk_raw(cx, 'o%d' % i, lo)
        obs.append(o)
        smps.append(osmp)
    kw = dict(all_configs=True) if all_configs else {}
    if method == 'function':
        res = pe.reweight(w, obs, **kw)
    elif method == 'method':
        res = [o.reweight(w) for o in obs]
    else:   # Corr
        corr = pe.Corr([obs[0], None] + obs[1:], padding=[1, 0])
        rc = corr.reweight(w, **kw)
        cx.expect(rc.T == corr.T and rc.N == 1, 'corr:shape')
        cx.expect(rc.content[0] is None and rc.content[2] is None, 'corr:none-pattern')
        res = [rc[1]] + [rc[t] for t in range(3, rc.T)]
    cx.expect(len(res) == len(obs), 'length')
    for i, (r, osmp) in enumerate(zip(res, smps)):
        s = reweight_spec(wsmp, osmp, all_configs)
        lib.compare(cx, r, s, 'rw[%d]' % i)
    # the flag is inherited by everything derived from a reweighted result
    d = res[0] * 2 + obs[0]
    cx.expect(d.reweighted is True, 'flag-inherited', str(d.reweighted))
    d2 = np.sin(res[0])
    cx.expect(d2.reweighted is True, 'flag-inherited-fn', str(d2.reweighted))
    cx.expect(obs[0].reweighted is False and w.reweighted is False, 'operands-unflagged')


def h_reweight_layouts(cx, method, all_configs=False, hole=False):
    """reweight with the layout parameters as symbolic integers (solver-enumerated box; data symbolic on every path): weight on a range with first
    configuration 1..3 and spacing 1..3 (optionally with a hole), observable on the sub-list starting at position 0..3 with stride 1..2"""
    w0 = cx.integer('w0', 1, 3)
    ws = cx.integer('ws', 1, 3)
    i0 = cx.integer('i0', 0, 3)
    k = cx.integer('k', 1, 2)
    if cx.mode == 'sym':
        w0, ws, i0, k = w0.concretize(1, 3), ws.concretize(1, 3), i0.concretize(0, 3), k.concretize(1, 2)
    W = [w0 + ws * j for j in range(13)]
    if hole:
        del W[5]
    O = [W[i0 + k * j] for j in range(5)]
    h_reweight(cx, {'e|r1': W}, [{'e|r1': O}, {'e|r1': O}] if method == 'corr' else [{'e|r1': O}], all_configs, method)


def h_reweight_bad(cx, lw, lo, why):
    """requests that cannot be aligned must raise"""
    import pyerrors as pe
    lib.sym_env(cx, *MODS)
    w, _ = _mk_raw(cx, 'w', lw)
    if why == 'covobs':
        o, _ = _mk_raw(cx, 'o', lo)
        c, _ = lib.mk_covobs(cx, 'c', 'cv', 1)
        o = o + c
    elif why == 'multi-ens':
        o, _ = lib.mk_obs(cx, 'o', lo)
    else:
        o, _ = _mk_raw(cx, 'o', lo)
    for kw in ({}, dict(all_configs=True)):
        try:
            pe.reweight(w, [o], **kw)
        except (ValueError, Exception) as e:
            if isinstance(e, core.Realize):
                raise
            cx.ok('raises[%s]' % why)
        else:
            cx.fail('no-exception[%s]' % why, 'reweight accepted a request that cannot be aligned')


def h_correlate(cx, la, lb, flags):
    import pyerrors as pe
    lib.sym_env(cx, *MODS)
    a, asmp = _mk_raw(cx, 'a', la)
    b, bsmp = _mk_raw(cx, 'b', lb)
    a.reweighted, b.reweighted = flags
    same = (sorted(la) == sorted(lb)) and all(list(la[n]) == list(lb[n]) for n in la)
    try:
        r = pe.correlate(a, b)
    except ValueError:
        cx.expect(not same, 'raises-only-if-unalignable')
        return
    if not cx.expect(same, 'must-raise', 'correlate accepted different chains / configuration lists'):
        return
    s = lib.primary_spec({n: {c: asmp[n][c] * bsmp[n][c] for c in la[n]} for n in la})
    s.reweighted = bool(flags[0] or flags[1])
    lib.compare(cx, r, s, 'correlate')
    # Corr.correlate with an Obs and with a Corr
    ca = pe.Corr([a, None, a])
    rc = ca.correlate(b)
    cx.expect(rc.T == 3 and rc.content[1] is None, 'corr:none-pattern')
    lib.compare(cx, rc[0], s, 'corr-obs[0]')
    cb = pe.Corr([b, b, None])
    rc = ca.correlate(cb)
    cx.expect(rc.content[1] is None and rc.content[2] is None, 'corr-corr:none-pattern')
    lib.compare(cx, rc[0], s, 'corr-corr[0]')


def h_correlate_bad(cx, la, lb, why):
    import pyerrors as pe
    lib.sym_env(cx, *MODS)
    if why == 'covobs':
        a, _ = _mk_raw(cx, 'a', la)
        c, _ = lib.mk_covobs(cx, 'c', 'cv', 1)
        a = a + c
        b = a
    elif why == 'multi-ens':
        a, _ = lib.mk_obs(cx, 'a', la)
        b, _ = lib.mk_obs(cx, 'b', lb)
    else:
        a, _ = _mk_raw(cx, 'a', la)
        b, _ = _mk_raw(cx, 'b', lb)
    try:
        pe.correlate(a, b)
    except ValueError:
        cx.ok('raises[%s]' % why)
    else:
        cx.fail('no-exception[%s]' % why)


def h_merge(cx, parts, flags, derive=()):
    """`derive`: indices of inputs that are non-linear functions of their raw data (central value != mean of the replica means): the merged
    observable is the one whose per-configuration data on each chain are fluctuation + replica mean of the input"""
    import pyerrors as pe
    lib.sym_env(cx, *MODS)
    obs, smp = [], {}
    dup = False
    for i, lay in enumerate(parts):
        o, s = _mk_raw(cx, 'p%d' % i, lay)
        if i in derive:
            o = o * o + 0.5 * o
            s = {n: {c: o.deltas[n][k] + o.r_values[n] for k, c in enumerate(o.idl[n])} for n in o.names}
        o.reweighted = flags[i]
        obs.append(o)
        for n in s:
            dup |= n in smp
            smp[n] = s[n]
    try:
        r = pe.merge_obs(obs)
    except ValueError:
        cx.expect(dup, 'raises-only-on-duplicate')
        return
    if not cx.expect(not dup, 'must-raise', 'merge_obs accepted a duplicated replica'):
        return
    s = lib.primary_spec(smp)
    s.reweighted = any(flags)
    lib.compare(cx, r, s, 'merge')
    cx.expect(bool(r.reweighted) == any(flags), 'flag')


def h_merge_cov(cx, lay):
    import pyerrors as pe
    lib.sym_env(cx, *MODS)
    a, _ = _mk_raw(cx, 'a', lay)
    c, _ = lib.mk_covobs(cx, 'c', 'cv', 1)
    b, _ = _mk_raw(cx, 'b', {'e|r9': [1, 2, 3, 4, 5]})
    try:
        pe.merge_obs([a + c, b])
    except ValueError:
        cx.ok('raises[covobs]')
    else:
        cx.fail('no-exception[covobs]')


def h_qtop(cx, lay, target_kind):
    from pyerrors.input.openQCD import qtop_projection
    lib.sym_env(cx, *MODS)
    q, qs = _mk_raw(cx, 'q', lay)
    target = cx.integer('target', -1, 1) if target_kind == 'sym' else 0
    r = qtop_projection(q, target=target)
    ind = {n: {c: If(round(qs[n][c]) == target, 1, 0) for c in qs[n]} for n in qs}
    lib.compare(cx, r, lib.primary_spec(ind), 'qtop')
    q.reweighted = True
    try:
        qtop_projection(q, target=0)
    except Exception as e:
        if isinstance(e, core.Realize):
            raise
        cx.ok('raises[reweighted]')
    else:
        cx.fail('no-exception[reweighted]')


HARNESSES = dict(reweight=h_reweight, reweight_bad=h_reweight_bad, correlate=h_correlate, correlate_bad=h_correlate_bad,
                 merge=h_merge, merge_cov=h_merge_cov, qtop=h_qtop, reweight_layouts=h_reweight_layouts)


def jobs(tier, seed):
    import random
    J = []

    def add(h, **p):
        J.append(dict(harness=h, params=p))
    W1 = {'e|r1': [1, 2, 3, 4, 5, 6, 7, 8]}
    W1s = {'e|r1': [2, 4, 6, 8, 10, 12, 14]}
    W1i = {'e|r1': [1, 2, 4, 5, 7, 8, 11]}
    W2 = {'e|r1': [1, 2, 3, 4, 5, 6, 7], 'e|r2': [1, 3, 5, 7, 9, 11]}
    W3 = {'e|r1': [1, 2, 3, 4, 5, 6], 'e|r2': [2, 4, 6, 8, 10, 12], 'e|r3': [1, 2, 3, 5, 8, 9]}
    rnd = random.Random(seed + 5)

    def subs(cfgs, n):
        allc = [s for s in layouts.subsets(cfgs, 5)]
        core_ = [allc[0], allc[-1]]
        # prefix, stride, random
        core_.append(cfgs[:5])
        if len(cfgs[::2]) >= 5:
            core_.append(cfgs[::2])
        core_ += rnd.sample(allc, min(n, len(allc)))
        out = []
        for c in core_:
            if list(c) not in out:
                out.append(list(c))
        return out
    nextra = 2 if tier == 'quick' else 12
    for W in (W1, W1s, W1i):
        cf = W['e|r1']
        for S in (subs(cf, nextra) if tier == 'quick' else [list(s) for s in layouts.subsets(cf, 5)]):
            for ac in (False, True):
                add('reweight', lw=W, lo_list=[{'e|r1': S}], all_configs=ac, method='function')
        add('reweight', lw=W, lo_list=[{'e|r1': cf[:5]}, {'e|r1': cf[1:7]}], all_configs=False, method='function')
        add('reweight', lw=W, lo_list=[{'e|r1': cf[:5]}], all_configs=False, method='method')
        add('reweight', lw=W, lo_list=[{'e|r1': cf[1:6]}, {'e|r1': cf[1:6]}, {'e|r1': cf[1:6]}], all_configs=False, method='corr')
        add('reweight', lw=W, lo_list=[{'e|r1': cf[1:]}, {'e|r1': cf[1:]}], all_configs=True, method='corr')
    for meth in ('function', 'corr', 'method'):
        J.append(dict(harness='reweight_layouts', params=dict(method=meth), opts=dict(maxpaths=600)))
    J.append(dict(harness='reweight_layouts', params=dict(method='function', hole=True), opts=dict(maxpaths=600)))
    J.append(dict(harness='reweight_layouts', params=dict(method='corr', all_configs=True), opts=dict(maxpaths=600)))
    # several observables in one call: same length and end points, different interior; a repeated layout; a multi-replica list
    for ac in (False, True):
        add('reweight', lw=W1, lo_list=[{'e|r1': [1, 2, 4, 7, 8]}, {'e|r1': [1, 3, 5, 6, 8]}, {'e|r1': [1, 2, 4, 7, 8]}], all_configs=ac, method='function')
        add('reweight', lw=W1s, lo_list=[{'e|r1': [2, 4, 8, 12, 14]}, {'e|r1': [2, 6, 8, 10, 14]}], all_configs=ac, method='function')
        add('reweight', lw=W2, lo_list=[{'e|r1': [1, 2, 4, 6, 7], 'e|r2': [1, 3, 5, 7, 9, 11]}, {'e|r1': [1, 3, 4, 5, 7], 'e|r2': [1, 3, 7, 9, 11]}], all_configs=ac, method='function')
    for W in (W2, W3):
        names = sorted(W)
        import itertools
        for k in range(1, len(names) + 1):
            for reps in itertools.combinations(names, k):
                lo = {}
                for n in reps:
                    cf = W[n]
                    lo[n] = rnd.choice(subs(cf, 1))
                for ac in (False, True):
                    add('reweight', lw=W, lo_list=[lo], all_configs=ac, method='function')
                if tier == 'thorough':
                    for _ in range(4):
                        lo = {n: rnd.choice(subs(W[n], 3)) for n in reps}
                        add('reweight', lw=W, lo_list=[lo], all_configs=rnd.random() < 0.5, method='function')
    # not alignable
    add('reweight_bad', lw=W1, lo={'e|r1': [4, 5, 6, 7, 8, 9]}, why='config-missing')
    add('reweight_bad', lw=W1i, lo={'e|r1': [1, 2, 3, 4, 5]}, why='config-missing')
    add('reweight_bad', lw=W1, lo={'e|r2': [1, 2, 3, 4, 5]}, why='replica-missing')
    add('reweight_bad', lw=W2, lo={'e|r1': [1, 2, 3, 4, 5], 'e|r3': [1, 2, 3, 4, 5]}, why='replica-missing')
    add('reweight_bad', lw=W1, lo={'e|r1': [1, 2, 3, 4, 5]}, why='covobs')
    add('reweight_bad', lw=W1, lo={'e|r1': [1, 2, 3, 4, 5], 'f|r1': [1, 2, 3, 4, 5]}, why='multi-ens')
    # correlate
    lays = [W1, W1i, W2, {'e|r1': [1, 2, 3, 4, 5]}, {'e|r1': [1, 2, 3, 4, 6]}, {'e|r1': [2, 3, 4, 5, 6]}, {'e|r1': [1, 2, 3, 4, 5, 6]},
            {'e|r2': [1, 2, 3, 4, 5]}, {'e|r1': [1, 2, 3, 4, 5], 'e|r2': [1, 2, 3, 4, 5]}]
    for i, la in enumerate(lays):
        for j, lb in enumerate(lays):
            if tier == 'quick' and i != j and (i + j) % 3 and not (i >= 3 and j >= 3):
                continue
            add('correlate', la=la, lb=lb, flags=[(i + j) % 2 == 1, j % 3 == 1])
    # per-replica configuration lists that differ although their concatenation is the same list: must be rejected, not paired positionally
    add('correlate_bad', la={'e|r1': [1, 2, 3, 4, 5, 6], 'e|r2': [7, 8, 9, 10, 11, 12]}, lb={'e|r1': [1, 2, 3, 4, 5, 6, 7], 'e|r2': [8, 9, 10, 11, 12]}, why='replica-boundaries')
    add('correlate_bad', la={'e|r1': [1, 2, 3, 4, 5], 'e|r2': [6, 7, 8, 9, 10, 11]}, lb={'e|r1': [1, 2, 3, 4, 5, 6], 'e|r2': [7, 8, 9, 10, 11]}, why='replica-boundaries')
    add('correlate_bad', la=W1, lb=W1, why='covobs')
    add('correlate_bad', la={'e|r1': [1, 2, 3, 4, 5], 'f|r1': [1, 2, 3, 4, 5]}, lb={'e|r1': [1, 2, 3, 4, 5], 'f|r1': [1, 2, 3, 4, 5]}, why='multi-ens')
    # merge: all partitions of up to three replicas + duplicates
    R = {'e|r1': [1, 2, 3, 4, 5], 'e|r2': [2, 4, 6, 8, 10, 12], 'e|r3': [1, 2, 4, 5, 7]}
    parts = [[_sub(R, ['e|r1']), _sub(R, ['e|r2'])], [_sub(R, ['e|r2']), _sub(R, ['e|r1'])],
             [_sub(R, ['e|r1']), _sub(R, ['e|r2']), _sub(R, ['e|r3'])], [_sub(R, ['e|r3', 'e|r1']), _sub(R, ['e|r2'])],
             [_sub(R, ['e|r1', 'e|r2']), _sub(R, ['e|r3'])], [_sub(R, ['e|r1', 'e|r2', 'e|r3'])],
             [_sub(R, ['e|r1', 'e|r2']), _sub(R, ['e|r2', 'e|r3'])], [_sub(R, ['e|r1']), _sub(R, ['e|r1'])],
             [_sub(R, ['e|r1']), {'e|r1': [6, 7, 8, 9, 10]}]]
    for i, p in enumerate(parts):
        add('merge', parts=p, flags=[False] * len(p))
        add('merge', parts=p, flags=[k == (i % len(p)) for k in range(len(p))])
    add('merge', parts=parts[4], flags=[False, False], derive=[0])       # derived input on two replicas with different replica means
    add('merge', parts=parts[3], flags=[False, True], derive=[0, 1])
    add('merge', parts=parts[0], flags=[False, False], derive=[1])
    add('merge_cov', lay=_sub(R, ['e|r1']))
    add('qtop', lay={'e|r1': [1, 2, 3, 4, 5]}, target_kind='sym')
    add('qtop', lay={'e|r1': [1, 3, 5, 7, 9, 11]}, target_kind='zero')
    if tier == 'thorough':
        J.append(dict(harness='qtop', params=dict(lay={'e|r1': [1, 2, 3, 4, 5], 'e|r2': [2, 3, 4, 5, 6]}, target_kind='zero'), opts=dict(maxpaths=3000)))
    return J


def apply_canary(name):
    from symx.mutate import mutate
    if name == 'positional-reduce':
        return mutate('pyerrors.obs', '_reduce_deltas', 'return np.array(deltas)[indices]', 'return np.array(deltas)[:len(idx_new)]')
    if name == 'full-weight-default':
        return mutate('pyerrors.obs', 'reweight', "if kwargs.get('all_configs'):", "if not kwargs.get('all_configs'):")
    if name == 'flag-not-set':
        return mutate('pyerrors.obs', 'reweight', 'result[-1].reweighted = True', 'result[-1].reweighted = False')
    raise KeyError(name)


def _cj(which):
    def f(tier, seed):
        W = {'e|r1': [1, 2, 3, 4, 5, 6, 7, 8]}
        return [dict(harness='reweight', params=dict(lw=W, lo_list=[{'e|r1': [1, 3, 4, 6, 8]}], all_configs=False, method='function'))]
    return f


CANARIES = [
    dict(name='positional-reduce', what='weights picked by array position instead of configuration number', jobs=_cj(0), quick=True),
    dict(name='full-weight-default', what='normalisation mode swapped', jobs=_cj(0)),
    dict(name='flag-not-set', what='reweighted flag not set', jobs=_cj(0)),
]

META = dict(
    explanation='C05: reweight / Obs.reweight / Corr.reweight (both normalisation modes), correlate / Corr.correlate, merge_obs and qtop_projection run on '
                'symbolic samples; results are compared with <w o>/<w>, per-configuration products and chain unions written on samples keyed by '
                '(replica, configuration number); unalignable requests must raise; the reweighted flag is checked on results and on derived quantities.',
    bounds='weights on 1-3 replicas with 6-8 configurations (contiguous, strided, irregular); observables on subsets with >= 5 configurations (quick: first/last/'
           'prefix/stride + seeded random subsets; thorough: every subset) and every non-empty replica subset; lists of 1-3 observables; Corr with T<=5 and None '
           'entries; correlate over 9 layouts pairwise; merge over all partitions of 3 replicas incl. duplicated replicas; qtop_projection with 5-6 '
           'configurations and symbolic target in [-1,1].',
    outside=['floating point rounding', 'round() at exact ties is modelled exactly (ties-to-even) over the reals', 'warnings'],
    stubs=['numpy shim'],
    assumptions=['the weight average is non-zero (denominator)'],
    exhaustive_thorough=True,
)
