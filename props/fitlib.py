"""Shared machinery for C07 / C08: contract stubs for the minimisers, helpers to build fit data."""
import types

import numpy as np
import z3

from symx import core, lib, contracts, dual
from symx.core import SV, tz, Ctx

MODS = ('pyerrors.obs', 'pyerrors.covobs', 'pyerrors.fits', 'pyerrors.correlators')


class _Res(types.SimpleNamespace):
    pass


def _stationary_point(cx, fun_scalar, n, stem):
    """fresh parameter vector p with grad fun_scalar(p) = 0  (contract of every minimiser: returns a stationary point)"""
    p = np.array([SV(cx.newvar(stem)) for _ in range(n)], dtype=object)
    g = dual.jacobian(lambda q: fun_scalar(q))(p)
    for j in range(n):
        cx.fact(tz(g[j]) == 0)
    cx.fit_points = getattr(cx, 'fit_points', []) + [p]
    return p


def _install_failing_minimisers(cx, rec):
    """concrete replay of a `minfail` job: the REAL minimisers, driven into their documented failure mode (iteration / call limit of one), so that
    what the library does with `success == False` resp. ODR's `info == 4` is observed on the real code path"""
    import scipy.optimize
    import scipy.odr
    import iminuit
    import pyerrors.fits as F
    fail_min = [int(cx.integer('min_status%d' % k, 0, 1)) <= 0 for k in range(4)]
    fail_odr = int(cx.integer('odr_info', 4, 5)) > 3
    count = [0]

    def note(ok):
        rec['min_failed'] = not ok          # the last minimisation is the one whose point the fit uses (an earlier one only provides the start)

    def wrap(real, limit):
        def f(*a, **kw):
            k = count[0]
            count[0] += 1
            if fail_min[min(k, 3)]:
                kw = dict(kw, **limit(kw))
            out = real(*a, **kw)
            note(bool(out.success))
            return out
        return f
    sh = contracts.scipy_shim()
    sh.optimize = types.SimpleNamespace(least_squares=wrap(scipy.optimize.least_squares, lambda kw: dict(max_nfev=1)),
                                        minimize=wrap(scipy.optimize.minimize, lambda kw: dict(options=dict(kw.get('options') or {}, maxiter=1))))
    cx.patch(F, 'scipy', sh)
    cx.patch(F, 'iminuit', types.SimpleNamespace(minimize=wrap(iminuit.minimize, lambda kw: dict(options=dict(kw.get('options') or {}, maxfun=1)))))

    class ODR(scipy.odr.ODR):
        def __init__(self, *a, **kw):
            if fail_odr:
                kw = dict(kw, maxit=1)
            super().__init__(*a, **kw)

        def run(self):
            out = super().run()
            note(out.info <= 3)
            return out
    cx.patch(F, 'ODR', ODR)


def guarded_fit(cx, rec, call):
    """runs the fit; with the `minfail` contract the minimiser may report that it did not converge: then the library must raise, never return a result.
    Returns the fit result, or None when the path ends here."""
    try:
        out = call()
    except core.Realize:
        raise
    except Exception as e:
        if rec.get('min_failed'):
            cx.ok('minimiser failure reported as an exception')
            return None
        raise
    if rec.get('min_failed'):
        cx.fail('fit returned a result although the minimiser reported that it did not converge', 'minimiser outcome: failure')
        return None
    return out


def install(cx, record=None, minfail=False):
    """patch pyerrors.fits for symbolic execution; `record` collects what the code hands to the libraries.
    minfail: the minimiser contract includes its failure mode - it may return success=False (ODR: info > 3) with an arbitrary point"""
    import pyerrors.fits as F
    lib.sym_env(cx, *MODS)
    rec = record if record is not None else {}
    if cx.mode != 'sym':
        if minfail:
            _install_failing_minimisers(cx, rec)
        return rec
    rec.setdefault('minimise', [])
    ncall = [0]

    def outcome():
        """True: converged (stationary point); False: the library reports failure and the returned point is arbitrary"""
        if not minfail:
            return True
        k = ncall[0]
        ncall[0] += 1
        ok = bool(cx.integer('min_status%d' % k, 0, 1) > 0)
        rec['min_failed'] = not ok          # the last minimisation is the one whose point the fit uses (an earlier one only provides the start)
        return ok

    def arbitrary(n, stem):
        return np.array([SV(cx.newvar(stem)) for _ in range(n)], dtype=object)

    def least_squares(resfn, x0, **kw):
        n = len(x0)
        ok = outcome()
        p = _stationary_point(cx, lambda q: sum(r * r for r in np.asarray(resfn(q), dtype=object).ravel()), n, 'fitp') if ok else arbitrary(n, 'fitp')
        rec['minimise'].append(dict(kind='least_squares', method=kw.get('method'), fun=lambda q: sum(r * r for r in np.asarray(resfn(q), dtype=object).ravel()), x=p))
        return _Res(x=p, fun=np.asarray(resfn(p), dtype=object), success=ok, message='contract stub: stationary point' if ok else 'contract stub: not converged', nfev=0)

    def minimize(fun, x0, **kw):
        n = len(x0)
        ok = outcome()
        p = _stationary_point(cx, fun, n, 'fitp') if ok else arbitrary(n, 'fitp')
        rec['minimise'].append(dict(kind='minimize', method=kw.get('method'), fun=fun, x=p))
        return _Res(x=p, fun=fun(p), success=ok, message='contract stub: stationary point' if ok else 'contract stub: not converged', nfev=0, nit=0)

    def cdf(name):
        def f(x, *a):
            rec.setdefault('cdf', []).append((name, x) + tuple(a))
            args = [tz(x)] + [tz(v) for v in a]
            return core.opaque(name, *args)
        return f
    stats = types.SimpleNamespace(chi2=types.SimpleNamespace(cdf=cdf('chi2cdf')), f=types.SimpleNamespace(cdf=cdf('fcdf')))
    sh = contracts.scipy_shim()
    sh.optimize = types.SimpleNamespace(least_squares=least_squares, minimize=minimize)
    sh.stats = stats
    cx.patch(F, 'scipy', sh)
    cx.patch(F, 'iminuit', types.SimpleNamespace(minimize=minimize))

    # ---- ODR
    class RealData:
        def __init__(self, x, y, sx=None, sy=None):
            self.x, self.y, self.sx, self.sy = x, y, sx, sy

    class Model:
        def __init__(self, f):
            self.f = f

    class ODR:
        def __init__(self, data, model, beta0, **kw):
            self.data, self.model, self.beta0 = data, model, beta0

        def set_job(self, **kw):
            rec['odr_job'] = kw

        def run(self):
            d = self.data
            x_f = np.asarray(d.x, dtype=object)
            n = len(self.beta0)
            m = x_f.size

            def chisq(q):
                beta, xp = q[:n], np.asarray(q[n:], dtype=object).reshape(x_f.shape)
                model = np.asarray(self.model.f(beta, xp), dtype=object)
                return sum(((yy - mm) / sy) * ((yy - mm) / sy) for yy, mm, sy in zip(d.y, model.ravel(), d.sy)) + \
                    sum(((a - b) / s) * ((a - b) / s) for a, b, s in zip(x_f.ravel(), xp.ravel(), np.asarray(d.sx, dtype=object).ravel()))
            info = 1
            if minfail:
                # ODRPACK stop codes: 1-3 convergence, 4 iteration limit reached, >= 5 questionable results / fatal errors
                info = cx.integer('odr_info', 1, 5)
                ok = bool(info <= 3)
                rec['min_failed'] = not ok
                q = _stationary_point(cx, chisq, n + m, 'odr') if ok else arbitrary(n + m, 'odr')
            else:
                q = _stationary_point(cx, chisq, n + m, 'odr')
            return _Res(beta=q[:n], xplus=np.asarray(q[n:], dtype=object).reshape(x_f.shape), res_var=0.0, stopreason=['contract stub'], info=info)
    cx.patch(F, 'ODR', ODR)
    cx.patch(F, 'Model', Model)
    cx.patch(F, 'RealData', RealData)
    return rec


def mk_data(cx, prefix, layouts, with_err=True):
    """list of observables with symbolic samples and (analysed state constructed directly) a positive symbolic error"""
    obs, specs = [], []
    for i, lay in enumerate(layouts):
        if isinstance(lay, dict):
            o, s = lib.mk_obs(cx, '%s%d' % (prefix, i), lay)
        else:
            o, s = lib.mk_covobs(cx, '%s%d' % (prefix, i), lay[1], lay[2])
        if with_err:
            if cx.mode == 'sym':
                e = cx.real('%serr%d' % (prefix, i))
                cx.assume(e > 0)
                o._dvalue = e
                o.e_dvalue = {}
            else:
                o.gamma_method()
        obs.append(o)
        specs.append(s)
    return obs, specs


def union_idl(specs):
    idl = {}
    for s in specs:
        for n, l in s.idl.items():
            idl[n] = sorted(set(idl.get(n, [])) | set(l))
    return idl


def components(specs):
    """every linear 'direction' of the data: central value, each (chain, configuration) of the union, each gradient entry.
    Returns list of (label, [component of spec_i for all i])  with fluctuations embedded into the union (C01 convention)."""
    idl = union_idl(specs)
    emb = [lib.embed(s, idl, None) for s in specs]
    out = []
    for n in sorted(idl):
        for c in idl[n]:
            out.append(('delta[%s][%d]' % (n, c), [e[n][c] for e in emb]))
    covn = sorted(set(k for s in specs for k in s.grads))
    for cn in covn:
        L = max(len(s.grads[cn]) for s in specs if cn in s.grads)
        for k in range(L):
            out.append(('grad[%s][%d]' % (cn, k), [s.grads[cn][k] if cn in s.grads else 0 for s in specs]))
    return out, idl


def result_component(res, label_kind, n=None, c=None, cn=None, k=None):
    pass


def res_components(res_list, idl, specs):
    """the same directions read from the fitted parameter observables (structure must be the union)"""
    out = []
    rs = [lib.spec_of_obs(r) for r in res_list]
    for n in sorted(idl):
        for c in idl[n]:
            out.append(('delta[%s][%d]' % (n, c), [r.deltas[n][c] if n in r.deltas and c in r.deltas[n] else None for r in rs]))
    covn = sorted(set(k for s in specs for k in s.grads))
    for cn in covn:
        L = max(len(s.grads[cn]) for s in specs if cn in s.grads)
        for k in range(L):
            out.append(('grad[%s][%d]' % (cn, k), [r.grads[cn][k] if cn in r.grads else None for r in rs]))
    return out
