"""Shared machinery for C07 / C08: contract stubs for the minimisers, helpers to build fit data."""
import types

import numpy as np
import z3

from symx import core, lib, contracts, dual
from symx.core import SV, tz, Ctx

MODS = ('pyerrors.obs', 'pyerrors.covobs', 'pyerrors.fits', 'pyerrors.correlators')


class _Res(types.SimpleNamespace):
    pass


def _stationary_point(cx, fun_scalar, n, stem):
    """fresh parameter vector p with grad fun_scalar(p) = 0  (contract of every minimiser: returns a stationary point)"""
    p = np.array([SV(cx.newvar(stem)) for _ in range(n)], dtype=object)
    g = dual.jacobian(lambda q: fun_scalar(q))(p)
    for j in range(n):
        cx.fact(tz(g[j]) == 0)
    cx.fit_points = getattr(cx, 'fit_points', []) + [p]
    return p


def install(cx, record=None):
    """patch pyerrors.fits for symbolic execution; `record` collects what the code hands to the libraries"""
    import pyerrors.fits as F
    lib.sym_env(cx, *MODS)
    if cx.mode != 'sym':
        return
    rec = record if record is not None else {}
    rec.setdefault('minimise', [])

    def least_squares(resfn, x0, **kw):
        n = len(x0)
        p = _stationary_point(cx, lambda q: sum(r * r for r in np.asarray(resfn(q), dtype=object).ravel()), n, 'fitp')
        rec['minimise'].append(dict(kind='least_squares', method=kw.get('method'), fun=lambda q: sum(r * r for r in np.asarray(resfn(q), dtype=object).ravel()), x=p))
        return _Res(x=p, fun=np.asarray(resfn(p), dtype=object), success=True, message='contract stub: stationary point', nfev=0)

    def minimize(fun, x0, **kw):
        n = len(x0)
        p = _stationary_point(cx, fun, n, 'fitp')
        rec['minimise'].append(dict(kind='minimize', method=kw.get('method'), fun=fun, x=p))
        return _Res(x=p, fun=fun(p), success=True, message='contract stub: stationary point', nfev=0, nit=0)

    def cdf(name):
        def f(x, *a):
            rec.setdefault('cdf', []).append((name, x) + tuple(a))
            args = [tz(x)] + [tz(v) for v in a]
            return core.opaque(name, *args)
        return f
    stats = types.SimpleNamespace(chi2=types.SimpleNamespace(cdf=cdf('chi2cdf')), f=types.SimpleNamespace(cdf=cdf('fcdf')))
    sh = contracts.scipy_shim()
    sh.optimize = types.SimpleNamespace(least_squares=least_squares, minimize=minimize)
    sh.stats = stats
    cx.patch(F, 'scipy', sh)
    cx.patch(F, 'iminuit', types.SimpleNamespace(minimize=minimize))

    # ---- ODR
    class RealData:
        def __init__(self, x, y, sx=None, sy=None):
            self.x, self.y, self.sx, self.sy = x, y, sx, sy

    class Model:
        def __init__(self, f):
            self.f = f

    class ODR:
        def __init__(self, data, model, beta0, **kw):
            self.data, self.model, self.beta0 = data, model, beta0

        def set_job(self, **kw):
            rec['odr_job'] = kw

        def run(self):
            d = self.data
            x_f = np.asarray(d.x, dtype=object)
            n = len(self.beta0)
            m = x_f.size

            def chisq(q):
                beta, xp = q[:n], np.asarray(q[n:], dtype=object).reshape(x_f.shape)
                model = np.asarray(self.model.f(beta, xp), dtype=object)
                return sum(((yy - mm) / sy) * ((yy - mm) / sy) for yy, mm, sy in zip(d.y, model.ravel(), d.sy)) + \
                    sum(((a - b) / s) * ((a - b) / s) for a, b, s in zip(x_f.ravel(), xp.ravel(), np.asarray(d.sx, dtype=object).ravel()))
            q = _stationary_point(cx, chisq, n + m, 'odr')
            return _Res(beta=q[:n], xplus=np.asarray(q[n:], dtype=object).reshape(x_f.shape), res_var=0.0, stopreason=['contract stub'], info=1)
    cx.patch(F, 'ODR', ODR)
    cx.patch(F, 'Model', Model)
    cx.patch(F, 'RealData', RealData)
    return rec


def mk_data(cx, prefix, layouts, with_err=True):
    """list of observables with symbolic samples and (analysed state constructed directly) a positive symbolic error"""
    obs, specs = [], []
    for i, lay in enumerate(layouts):
        if isinstance(lay, dict):
            o, s = lib.mk_obs(cx, '%s%d' % (prefix, i), lay)
        else:
            o, s = lib.mk_covobs(cx, '%s%d' % (prefix, i), lay[1], lay[2])
        if with_err:
            if cx.mode == 'sym':
                e = cx.real('%serr%d' % (prefix, i))
                cx.assume(e > 0)
                o._dvalue = e
                o.e_dvalue = {}
            else:
                o.gamma_method()
        obs.append(o)
        specs.append(s)
    return obs, specs


def union_idl(specs):
    idl = {}
    for s in specs:
        for n, l in s.idl.items():
            idl[n] = sorted(set(idl.get(n, [])) | set(l))
    return idl


def components(specs):
    """every linear 'direction' of the data: central value, each (chain, configuration) of the union, each gradient entry.
    Returns list of (label, [component of spec_i for all i])  with fluctuations embedded into the union (C01 convention)."""
    idl = union_idl(specs)
    emb = [lib.embed(s, idl, None) for s in specs]
    out = []
    for n in sorted(idl):
        for c in idl[n]:
            out.append(('delta[%s][%d]' % (n, c), [e[n][c] for e in emb]))
    covn = sorted(set(k for s in specs for k in s.grads))
    for cn in covn:
        L = max(len(s.grads[cn]) for s in specs if cn in s.grads)
        for k in range(L):
            out.append(('grad[%s][%d]' % (cn, k), [s.grads[cn][k] if cn in s.grads else 0 for s in specs]))
    return out, idl


def result_component(res, label_kind, n=None, c=None, cn=None, k=None):
    pass


def res_components(res_list, idl, specs):
    """the same directions read from the fitted parameter observables (structure must be the union)"""
    out = []
    rs = [lib.spec_of_obs(r) for r in res_list]
    for n in sorted(idl):
        for c in idl[n]:
            out.append(('delta[%s][%d]' % (n, c), [r.deltas[n][c] if n in r.deltas and c in r.deltas[n] else None for r in rs]))
    covn = sorted(set(k for s in specs for k in s.grads))
    for cn in covn:
        L = max(len(s.grads[cn]) for s in specs if cn in s.grads)
        for k in range(L):
            out.append(('grad[%s][%d]' % (cn, k), [r.grads[cn][k] if cn in r.grads else None for r in rs]))
    return out
