"""Shared harness for C17 (readers return the stored numbers at the right configurations) and C18 (truncated files)."""
import itertools
import os
import shutil
import tempfile
import types

import numpy as np
import z3

from symx import core, lib, tbuf
from symx.core import SV, SB, fn
from symx.tbuf import I, D

MODS = ('pyerrors.obs', 'pyerrors.covobs', 'pyerrors.correlators', 'pyerrors.input.openQCD', 'pyerrors.input.utils')


# ------------------------------------------------------------------ synthetic file sets
# every stored double is a distinct symbol, so a mis-assignment can never cancel

def build(cx, fmt, rep, nrec, first, step, p):
    """fields of one file + per record (cfg label in file, the documented reduction per observable)"""
    sym = lambda n: cx.real('%s_%s' % (rep, n))
    recs = []
    if fmt in ('rwms14', 'rwms16'):
        nrw, nfct, nsrc = p.get('nrw', 1), (p.get('nfct', 1) if fmt == 'rwms16' else 1), p.get('nsrc', 2)
        F = [I(nrw)] + ([I(nfct)] * nrw if fmt == 'rwms16' else []) + [I(nsrc)] * nrw
        hdr = len(F)
        for r in range(nrec):
            start = len(F)
            F.append(I(first + r * step))
            vals = []
            for i in range(nrw):
                prod = 1
                for j in range(nfct):
                    F += [D(sym('sq%d_%d_%d_%d' % (r, i, j, k))) for k in range(nsrc)]
                    v = [sym('x%d_%d_%d_%d' % (r, i, j, k)) for k in range(nsrc)]
                    F += [D(x) for x in v]
                    prod = prod * (sum(fn('exp', -x) for x in v) / nsrc)
                vals.append(prod)
            recs.append((first + r * step, vals, start, len(F)))
        return F, recs, nrw
    if fmt == 'rwms20':
        nrw, nfct, nsrc = p.get('nrw', 1), p.get('nfct', 1), p.get('nsrc', 2)
        F = [I(2 * nrw)] + [I(nfct)] * nrw + [I(nsrc)] * nrw + [I(0)]
        for r in range(nrec):
            start = len(F)
            F.append(I(first + r * step))
            vals = []
            for i in range(nrw):
                # two arrays: sqn then lnr; each: d, n[0..d-1], size, data. The numbers are stored in quadruple precision as
                # (high, low) pairs of doubles: n = (nfct, 2 * nsrc), size 8; the reader uses the high parts
                F += [I(2), I(nfct), I(2 * nsrc), I(8)] + [D(sym('sq%d_%d_%d' % (r, i, k))) for k in range(nfct * 2 * nsrc)]
                F += [I(2), I(nfct), I(2 * nsrc), I(8)]
                prod = 1
                for j in range(nfct):
                    v = [sym('x%d_%d_%d_%d' % (r, i, j, k)) for k in range(nsrc)]
                    for k, x in enumerate(v):
                        F += [D(x), D(sym('lo%d_%d_%d_%d' % (r, i, j, k)))]
                    prod = prod * (sum(fn('exp', -x) for x in v) / nsrc)
                vals.append(prod)
            recs.append((first + r * step, vals, start, len(F)))
        return F, recs, nrw
    if fmt == 'qtop':
        nn, tmax, dn, eps = p.get('nn', 2), p.get('tmax', 2), 1, 0.01
        F = [I(dn), I(nn), I(tmax), D(eps)]
        for r in range(nrec):
            start = len(F)
            F.append(I(first + r * step))
            q = None
            for blk in ('W', 'Y', 'Q'):
                vals = [sym('%s%d_%d' % (blk, r, k)) for k in range(tmax * (nn + 1))]
                F += [D(v) for v in vals]
                if blk == 'Q':
                    q = vals
            # flow time index_aim, summed over the timeslices
            ia = p.get('index_aim', 1)
            recs.append((first + r * step, [sum(q[ia * tmax:(ia + 1) * tmax])], start, len(F)))
        return F, recs, 1
    if fmt == 'edens':
        # same ms.dat files as 'qtop'; _extract_flowed_energy_density returns, per flow time n, the mean over the timeslices [xmin, tmax - xmin) of the
        # second (Yang-Mills action, 'Y') block - the first ('W') block with plaquette=True
        nn, tmax, dn, eps = p.get('nn', 1), p.get('tmax', 2), 1, 0.01
        xmin = p.get('xmin', 0)
        F = [I(dn), I(nn), I(tmax), D(eps)]
        for r in range(nrec):
            start = len(F)
            F.append(I(first + r * step))
            keep = None
            for blk in ('W', 'Y', 'Q'):
                vals = [sym('%s%d_%d' % (blk, r, k)) for k in range(tmax * (nn + 1))]
                F += [D(v) for v in vals]
                if blk == ('W' if p.get('plaquette') else 'Y'):
                    keep = vals
            recs.append((first + r * step, [sum(keep[n * tmax + xmin:(n + 1) * tmax - xmin]) / (tmax - 2 * xmin) for n in range(nn + 1)], start, len(F)))
        return F, recs, nn + 1
    if fmt == 'sfqcd':
        ncs, tmax, zeu = p.get('ncs', 2), p.get('tmax', 2), p.get('zeuthen', False)
        F = [I(2), I(ncs), I(tmax), I(8), I(8), I(8), D(1e-6), D(0.4)]
        ia = p.get('index_aim', 1)
        obspos = 0 if zeu else 8
        for r in range(nrec):
            start = len(F)
            F.append(I(first + r * step))
            q = None
            for j in range(ncs + 1):
                for i in range(16):
                    vals = [sym('o%d_%d_%d_%d' % (r, j, i, k)) for k in range(tmax)]
                    F += [D(v) for v in vals]
                    if j == ia and i == obspos:
                        q = vals
            recs.append((first + r * step, [sum(q)], start, len(F)))
        return F, recs, 1
    if fmt == 'ms5':
        tmax = p.get('tmax', 2)
        F = [D(0.13), D(1.9), D(1.0), D(1.0), I(tmax), I(1)]
        for r in range(nrec):
            start = len(F)
            F.append(I(first + r * step))
            vals = [sym('c%d_%d' % (r, k)) for k in range(2 * tmax * 10 + 4)]
            F += [D(v) for v in vals]
            recs.append((first + r * step, vals, start, len(F)))
        return F, recs, 1
    raise KeyError(fmt)


def nbytes(F):
    return sum(f[1] for f in F)


def install(cx, files, listing):
    """sym mode: typed buffers behind open / struct / os.walk; conc mode: real files in a scratch directory"""
    import pyerrors.input.openQCD as Q
    lib.sym_env(cx, *MODS)
    if cx.mode == 'sym':
        vars(Q)['np'].__dict__['frombuffer'] = tbuf.frombuffer
        cx.patch(Q, 'struct', tbuf.STRUCT)
        cx.patch(Q, 'open', lambda path, mode='r': tbuf.SymFile(*files[path.split('/')[-1]]))
        cx.patch(Q, 'os', types.SimpleNamespace(walk=lambda path: iter([(path, [], list(listing))]), path=os.path))
        return '/symbolic'
    d = tempfile.mkdtemp(prefix='vcheck_readers_')
    cx._tmpdir = d
    for name, (F, L) in files.items():
        data = tbuf.to_bytes(F)
        with open(os.path.join(d, name), 'wb') as f:
            f.write(data[:int(L)] if L is not None else data)
    return d


def cleanup(cx):
    d = getattr(cx, '_tmpdir', None)
    if d and os.path.isdir(d):
        shutil.rmtree(d, ignore_errors=True)


def expected_cfgs(labels, fmt):
    """configuration numbers as the readers document them: label // spacing, shifted so that the first measurement is configuration 1 when
    the first label is > 1 and the spacing is > 1 (rwms) resp. always when the first configuration is > 1 (flow)."""
    if fmt == 'ms5':
        return list(labels)
    st = labels[1] - labels[0]
    cf = [l // st for l in labels]
    if fmt.startswith('rwms'):
        if cf[0] > 1 and st > 1:
            cf = [c - (cf[0] - 1) for c in cf]
    else:
        if cf[0] > 1:
            cf = [c - (cf[0] - 1) for c in cf]
    return cf


def call_reader(cx, fmt, path, prefix, p, kw):
    import pyerrors.input.openQCD as Q
    import contextlib, io
    with contextlib.redirect_stdout(io.StringIO()):
        if fmt.startswith('rwms'):
            return Q.read_rwms(path, prefix, version={'rwms14': '1.4', 'rwms16': '1.6', 'rwms20': '2.0'}[fmt], **kw)
        if fmt == 'qtop':
            # c chosen such that round((c L)^2 / 8 / eps / dn) = index_aim
            ia = p.get('index_aim', 1)
            c = float(np.sqrt(8 * 0.01 * ia))
            return [Q.read_qtop(path, prefix, c=c, L=1, version='openQCD', **kw)]
        if fmt == 'edens':
            ed = Q._extract_flowed_energy_density(path, prefix, 1, p.get('xmin', 0), 1, **dict(kw, **({'plaquette': True} if p.get('plaquette') else {})))
            nn = p.get('nn', 1)
            keys = sorted(ed)
            cx.expect(len(keys) == nn + 1 and all(abs(k - n * 0.01) < 1e-12 for n, k in enumerate(keys)), 'flow times n * dn * eps as keys', str(keys))
            return [ed[k] for k in keys]
        if fmt == 'sfqcd':
            ia, ncs = p.get('index_aim', 1), p.get('ncs', 2)
            return [Q.read_qtop(path, prefix, c=ia * 0.4 / ncs, version='sfqcd', Zeuthen_flow=p.get('zeuthen', False), **kw)]
        if fmt == 'ms5':
            return Q.read_ms5_xsf(path, prefix, 'dd', p.get('corr', 'gA'), **kw)


def fname(fmt, prefix, rep):
    return {'rwms14': '%s%s.dat', 'rwms16': '%s%s.ms1.dat', 'rwms20': '%s%s.ms1.dat', 'qtop': '%s%s.ms.dat', 'edens': '%s%s.ms.dat', 'sfqcd': '%s%s.gfms.dat', 'ms5': '%s%s.ms5_xsf_dd.dat'}[fmt] % (prefix, rep)


def result_specs(fmt, p, per_rep, nobs):
    """per observable: samples dict name -> {cfg: value}"""
    out = []
    if fmt == 'ms5':
        tmax = p.get('tmax', 2)
        corr = p.get('corr', 'gA')
        BI = ["gS", "gP", "gA", "gV", "gVt", "lA", "lV", "lVt", "lT", "lTt"]
        BB = ["g1", "l1"]
        if corr in BI:
            base = 2 * tmax * BI.index(corr)
            slots = [(base + 2 * t, base + 2 * t + 1) for t in range(tmax)]
        else:
            base = 2 * tmax * len(BI) + 2 * BB.index(corr)
            slots = [(base, base + 1)]
        for re_, im_ in slots:
            out.append(({n: {c: v[re_] for c, v in recs} for n, recs in per_rep.items()}, {n: {c: v[im_] for c, v in recs} for n, recs in per_rep.items()}))
        return out
    for i in range(nobs):
        out.append({n: {c: v[i] for c, v in recs} for n, recs in per_rep.items()})
    return out


def compare_result(cx, fmt, res, specs, label):
    import pyerrors as pe
    if fmt == 'ms5':
        if len(specs) == 1:
            objs = [res]
        else:
            if not cx.expect(isinstance(res, pe.Corr) and res.T == len(specs), label + ':Corr-shape'):
                return
            objs = [res[t] for t in range(res.T)]
        for t, (o, (sr, si)) in enumerate(zip(objs, specs)):
            if not cx.expect(isinstance(o, pe.CObs), label + ':CObs[%d]' % t):
                continue
            lib.compare(cx, o.real, lib.primary_spec(sr), '%s:re[%d]' % (label, t))
            lib.compare(cx, o.imag, lib.primary_spec(si), '%s:im[%d]' % (label, t))
        return
    if not cx.expect(len(res) == len(specs), label + ':count', '%d vs %d' % (len(res), len(specs))):
        return
    for i, (o, s) in enumerate(zip(res, specs)):
        lib.compare(cx, o, lib.primary_spec(s), '%s[%d]' % (label, i))


def h_read(cx, fmt, reps, nrec, first, step, p=None, listing=None, sel=None, truncate=None, trunc_from=0, exact=False):
    """reps: replica suffixes e.g. ['r0', 'r1']; nrec / first / step per replica (lists);
    sel: dict(r_start=[..], r_stop=[..], r_step=k) selection; truncate: index of the replica whose file length is symbolic."""
    import pyerrors as pe
    p = p or {}
    prefix = 'ens'
    files = {}
    data = {}
    nobs = 1
    for k, rep in enumerate(reps):
        F, recs, nobs = build(cx, fmt, rep, nrec[k], first[k], step[k], p)
        files[fname(fmt, prefix, rep)] = [F, None]
        data[rep] = (F, recs)
    Lsym = None
    if truncate is not None:
        rep = reps[truncate]
        F = data[rep][0]
        total = nbytes(F)
        # cuts before record `trunc_from` are covered by the jobs with trunc_from = 0 on smaller record layouts
        Lsym = cx.integer('L', nbytes(F[:data[rep][1][trunc_from][2]]) if trunc_from else 0, total - 1)
        files[fname(fmt, prefix, rep)][1] = Lsym.t if cx.mode == 'sym' else int(Lsym)
    for name in files:
        if files[name][1] is None:
            files[name][1] = nbytes(files[name][0])
    if exact and cx.mode == 'sym':
        cx.patch(tbuf.SymFile, 'exact', True)
    order = list(files) if listing is None else [list(files)[i] for i in listing]
    path = install(cx, {k: tuple(v) for k, v in files.items()}, order)
    kw = {}
    if sel:
        kw.update({k: v for k, v in sel.items()})
    try:
        try:
            res = call_reader(cx, fmt, path, prefix, p, kw)
        except core.Realize:
            raise
        except Exception as e:
            if truncate is None:
                cx.fail('reader raised on a well-formed file set', '%s: %s' % (type(e).__name__, e))
            else:
                cx.ok('truncated file rejected')
            return
        # ---- expected: complete records only
        per_rep = {}
        for k, rep in enumerate(reps):
            F, recs = data[rep]
            keep = recs
            if truncate == k:
                # number of complete records for this path (must be unique on the path)
                ends = [nbytes(F[:r[3]]) for r in recs]
                if cx.mode == 'sym':
                    feas = []
                    for m in range(len(recs) + 1):
                        lo = ends[m - 1] if m > 0 else 0
                        hi = ends[m] if m < len(recs) else None
                        cond = z3.And(Lsym.t >= lo, Lsym.t < hi) if hi is not None else Lsym.t >= lo
                        if cx.check(cond, tier=1) != 'unsat':
                            feas.append(m)
                    if not cx.expect(len(feas) == 1, 'path determines the number of complete records', str(feas)):
                        return
                    m = feas[0]
                else:
                    m = sum(1 for e in ends if e <= int(Lsym))
                keep = recs[:m]
            labels = [r[0] for r in keep]
            if len(labels) < 2:
                cx.fail('reader accepted a file with fewer than two complete records', str(labels))
                return
            cfgs = expected_cfgs(labels, fmt)
            vals = [r[1] for r in keep]
            pairs = list(zip(cfgs, vals))
            if sel:
                a = sel.get('r_start', [None] * len(reps))[k]
                b = sel.get('r_stop', [None] * len(reps))[k]
                s_ = sel.get('r_step', 1)
                pairs = [(c, v) for c, v in pairs if (a in (None, 0) or c >= a) and (b is None or c <= b)][::s_]
            name = '%s|%s' % (prefix, rep)
            if sel and sel.get('names'):
                # explicit chain names: given in the numeric order of the replica numbers of the files
                rank = sorted(reps, key=lambda r: int(r[1:])).index(rep)
                name = sel['names'][rank]
            per_rep[name] = pairs
        if any(len(v) < 5 for v in per_rep.values()):
            cx.fail('reader returned an observable although fewer than 5 complete records are available', str({k: len(v) for k, v in per_rep.items()}))
            return
        compare_result(cx, fmt, res, result_specs(fmt, p, per_rep, nobs), fmt)
    finally:
        cleanup(cx)


HARNESSES = dict(read=h_read)
