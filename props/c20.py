"""C20 Constant tables and special-function derivatives are mathematically exact."""
import ast
import inspect
import itertools
from fractions import Fraction

import numpy as np
import z3

from symx import core, ast2smt
from symx.core import SB

PROPERTY = 'C20'
OPTS = dict(timeout=120000, maxpaths=4)


# ------------------------------------------------------------------ Dirac matrices (ground obligations on the tables read at run time)

def _exact(m):
    """complex matrix -> matrix of (Fraction re, Fraction im)"""
    return [[(Fraction(float(np.real(v))), Fraction(float(np.imag(v)))) for v in row] for row in np.asarray(m)]


def _mul(a, b):
    n = len(a)
    out = [[(Fraction(0), Fraction(0)) for _ in range(n)] for _ in range(n)]
    for i in range(n):
        for j in range(n):
            re = im = Fraction(0)
            for k in range(n):
                re += a[i][k][0] * b[k][j][0] - a[i][k][1] * b[k][j][1]
                im += a[i][k][0] * b[k][j][1] + a[i][k][1] * b[k][j][0]
            out[i][j] = (re, im)
    return out


def _lin(ca, a, cb, b):
    return [[(ca * a[i][j][0] + cb * b[i][j][0], ca * a[i][j][1] + cb * b[i][j][1]) for j in range(len(a))] for i in range(len(a))]


def _dag(a):
    n = len(a)
    return [[(a[j][i][0], -a[j][i][1]) for j in range(n)] for i in range(n)]


def _eye(c=1):
    return [[(Fraction(c if i == j else 0), Fraction(0)) for j in range(4)] for i in range(4)]


def h_clifford(cx):
    import pyerrors.dirac as D
    g = [_exact(D.gamma[m]) for m in range(4)]
    g5 = _exact(D.gamma5)
    cx.expect(_exact(D.identity) == _eye(), 'identity')
    cx.expect([_exact(x) for x in (D.gammaX, D.gammaY, D.gammaZ, D.gammaT)] == g, 'gamma-array=XYZT')
    for m in range(4):
        cx.expect(_dag(g[m]) == g[m], 'hermitian[%d]' % m)
        for n in range(4):
            ac = _lin(1, _mul(g[m], g[n]), 1, _mul(g[n], g[m]))
            cx.expect(ac == _eye(2 if m == n else 0), 'clifford{%d,%d}' % (m, n))
        cx.expect(_lin(1, _mul(g[m], g5), 1, _mul(g5, g[m])) == _eye(0), 'gamma5-anticommutes[%d]' % m)
    cx.expect(_mul(_mul(g[0], g[1]), _mul(g[2], g[3])) == g5, 'gamma5=XYZT')
    cx.expect(_dag(g5) == g5 and _mul(g5, g5) == _eye(), 'gamma5-hermitian-involution')


GRID_SPEC = {
    'Identity': lambda g, g5: _eye(), 'Gamma5': lambda g, g5: g5,
    'GammaX': lambda g, g5: g[0], 'GammaY': lambda g, g5: g[1], 'GammaZ': lambda g, g5: g[2], 'GammaT': lambda g, g5: g[3],
    'GammaXGamma5': lambda g, g5: _mul(g[0], g5), 'GammaYGamma5': lambda g, g5: _mul(g[1], g5),
    'GammaZGamma5': lambda g, g5: _mul(g[2], g5), 'GammaTGamma5': lambda g, g5: _mul(g[3], g5),
}
for _n, (_a, _b) in {'SigmaXT': (0, 3), 'SigmaXY': (0, 1), 'SigmaXZ': (0, 2), 'SigmaYT': (1, 3), 'SigmaYZ': (1, 2), 'SigmaZT': (2, 3)}.items():
    GRID_SPEC[_n] = (lambda a, b: (lambda g, g5: _lin(Fraction(1, 2), _mul(g[a], g[b]), Fraction(-1, 2), _mul(g[b], g[a]))))(_a, _b)


def h_grid(cx):
    """Grid_gamma: the if/elif chain is translated from the current source with the tag a symbolic *string*;
    the solver shows that exactly the 16 documented tags are accepted and every other string raises; each branch value is
    evaluated exactly and compared with the stated product / commutator."""
    import pyerrors.dirac as D
    g = [_exact(D.gamma[m]) for m in range(4)]
    g5 = _exact(D.gamma5)
    if cx.mode == 'conc':
        tag = 'T%d' % cx.integer('tagcode', 0, 99)
        try:
            D.Grid_gamma(tag)
        except ValueError:
            pass
        else:
            cx.fail('unknown-tag-accepted', tag)
        for t, f in GRID_SPEC.items():
            cx.expect(_exact(D.Grid_gamma(t)) == f(g, g5), 'grid[%s]' % t)
        return
    f = ast2smt.fdef(D, 'Grid_gamma')
    tag = z3.String('gamma_tag')
    # collect (condition, expression node) pairs of the chain
    body = ast2smt.strip_doc(f.body)
    node = body[0]
    branches = []
    tr = ast2smt.T({'gamma_tag': tag})
    while isinstance(node, ast.If):
        cond = tr.ev(node.test)
        cx.expect(len(node.body) == 1 and isinstance(node.body[0], ast.Assign), 'grid:branch-shape')
        branches.append((cond, node.test, node.body[0].value))
        if len(node.orelse) == 1 and isinstance(node.orelse[0], ast.If):
            node = node.orelse[0]
        else:
            cx.expect(len(node.orelse) == 1 and isinstance(node.orelse[0], ast.Raise), 'grid:else-raises')
            break
    accepted = z3.Or(*[c for c, _, _ in branches])
    documented = z3.Or(*[tag == z3.StringVal(t) for t in GRID_SPEC])
    cx.prove(accepted == documented, 'grid:accepted-tags=16-documented (every other string raises)')
    # first-match semantics: each documented tag selects exactly one branch; evaluate that branch
    for t, spec in GRID_SPEC.items():
        hits = []
        for c, test, expr in branches:
            s = z3.Solver()
            s.add(tag == z3.StringVal(t), c)
            if str(s.check()) == 'sat':
                hits.append(expr)
        if not cx.expect(len(hits) >= 1, 'grid[%s]:reachable' % t):
            continue
        val = eval(compile(ast.Expression(hits[0]), '<grid>', 'eval'), vars(D))
        cx.expect(_exact(val) == spec(g, g5), 'grid[%s]=stated-product' % t)
        cx.expect(_exact(D.Grid_gamma(t)) == spec(g, g5), 'grid[%s]:call' % t)


# ------------------------------------------------------------------ epsilon tensors

def _perm_sign(idx):
    if len(set(idx)) != len(idx):
        return 0
    inv = sum(1 for x in range(len(idx)) for y in range(x + 1, len(idx)) if idx[x] > idx[y])
    return -1 if inv % 2 else 1


def h_eps(cx, name, nidx, lo, hi):
    import pyerrors.dirac as D
    idx = [cx.integer('i%d' % k, lo, hi) for k in range(nidx)]
    if cx.mode == 'conc':
        indom = all(0 <= v <= nidx - 1 for v in idx) or all(1 <= v <= nidx for v in idx)
        try:
            r = getattr(D, name)(*idx)
        except ValueError:
            cx.expect(not indom, 'raises-only-outside-domain', str(idx))
            return
        cx.expect(indom, 'accepted-outside-domain', str(idx))
        cx.prove_eq(r, _perm_sign(idx), 'value')
        return
    f = ast2smt.fdef(D, name)
    args = [a.arg for a in f.args.args]
    vs = [i.t for i in idx]
    tr = ast2smt.T(dict(zip(args, vs)))
    tr.helpers = ast2smt.module_helpers(D)
    raises, returns = ast2smt.exec_straight(tr, ast2smt.strip_doc(f.body))
    cx.expect(len(returns) == 1, 'one-return')
    guard, ret = returns[0]
    inv = sum([z3.If(vs[x] > vs[y], 1, 0) for x in range(nidx) for y in range(x + 1, nidx)])
    sign = z3.If(z3.Distinct(*vs), z3.If(inv % 2 == 0, 1, -1), 0)
    indom = z3.Or(z3.And(*[z3.And(v >= 0, v <= nidx - 1) for v in vs]), z3.And(*[z3.And(v >= 1, v <= nidx) for v in vs]))
    cx.prove(raises == z3.Not(indom), 'raises-iff-outside-domain')
    cx.prove(z3.Implies(indom, z3.And(guard, ret == z3.ToReal(sign))), 'value=permutation-sign')
    # reachability witnesses
    cx.expect(cx.check(indom) == 'sat' and cx.check(z3.Not(indom)) == 'sat', 'witness:both-regions-reachable')


# ------------------------------------------------------------------ K_n

def h_kn(cx):
    import pyerrors.special as S
    if cx.mode == 'conc':
        import scipy.special
        from autograd import grad
        n = cx.integer('n', 0, 6)
        x = abs(cx.real('x')) + 0.05
        g = cx.real('g') + 1.5           # cotangent != 1: kn inside a larger expression
        d = grad(lambda y: g * S.kn(n, y))(x)
        cx.prove_eq(d, -0.5 * g * (scipy.special.kn(abs(n - 1), x) + scipy.special.kn(n + 1, x)), 'kn-derivative')
        from autograd import elementwise_grad
        xs = np.array([x, x + 0.5])
        d2 = elementwise_grad(lambda y: S.kn(n, y) + S.kn(n + 2, y))(xs)        # two kn nodes share one cotangent array
        want = -0.5 * (scipy.special.kn(abs(n - 1), xs) + scipy.special.kn(n + 1, xs)) - 0.5 * (scipy.special.kn(n + 1, xs) + scipy.special.kn(n + 3, xs))
        cx.prove_eq(list(d2), list(want), 'kn-derivative of a sum of two kn nodes (shared cotangent)')
        try:
            S.kn(cx.real('nu') + 0.5 if float(cx.real('nu')).is_integer() else cx.real('nu'), x)
        except TypeError:
            pass
        else:
            cx.fail('non-integer-order-accepted')
        return
    # the module source is executed once more in a private namespace with autograd's `defvjp` replaced by a recorder: whatever is registered
    # for kn (a lambda, a helper, a table) is the object that gets evaluated, with the module globals `kn` / `np` replaced by an
    # uninterpreted K and z3-aware numpy pieces afterwards (globals are looked up at call time)
    import autograd.extend as AE
    calls = []
    real_defvjp = AE.defvjp
    ns = {'__name__': 'pyerrors_special_under_analysis'}
    AE.defvjp = lambda fun, *vjps, **kw: calls.append((fun, vjps, kw))
    try:
        exec(compile(inspect.getsource(S), S.__file__, 'exec'), ns)
    finally:
        AE.defvjp = real_defvjp
    reg = [c for c in calls if c[0] is ns.get('kn')]
    if not cx.expect(len(reg) == 1 and len(reg[0][1]) == 2 and not reg[0][2], 'one defvjp(kn, <order>, <argument>) registration', str(calls)[:200]):
        return
    cx.expect(reg[0][1][0] is None, 'defvjp(kn, None, ...): no derivative w.r.t. the order')
    K = z3.Function('K', z3.IntSort(), z3.RealSort(), z3.RealSort())

    class NPx:
        @staticmethod
        def abs(x):
            return z3.If(x >= 0, x, -x)
    ns['kn'] = lambda n, x: K(n, x)
    ns['np'] = NPx
    n = cx.integer('n').t
    x, g, ans = z3.Reals('x g ans')
    res = reg[0][1][1](ans, n, x)(g)
    m = z3.Int('m')
    y = z3.Real('y')
    cx.fact(z3.ForAll([m, y], K(-m, y) == K(m, y)))
    # what the vjp may rely on: `ans` is the value of the primitive, and the three-term recurrence of K (DLMF 10.29.1)
    cx.assume(core.SB(ans == K(n, x)), 'ans = K_n(x)')
    cx.assume(core.SB(x != 0), 'x != 0')
    cx.fact(K(n + 1, x) * x == K(n - 1, x) * x + 2 * z3.ToReal(n) * K(n, x))
    cx.prove(res == -g * (K(n - 1, x) + K(n + 1, x)) / 2, 'vjp = -g (K_{n-1}+K_{n+1})/2 for every integer n and every cotangent g')
    # the cotangent autograd hands in is shared with sibling nodes of the graph: it must not be modified in place
    garr = np.empty(1, dtype=object)
    garr[0] = g
    rarr = reg[0][1][1](ans, n, x)(garr)
    cx.prove(garr[0] == g, 'the cotangent array is not modified in place')
    cx.prove(np.asarray(rarr, dtype=object).ravel()[0] == -g * (K(n - 1, x) + K(n + 1, x)) / 2, 'vjp on an array cotangent')
    # order check of the primitive itself
    f = ast2smt.fdef(S, 'kn')
    nu = z3.Real('nu')
    tr = ast2smt.T({'n': nu, 'x': x, 'scipy': None})
    body = ast2smt.strip_doc(f.body)
    cx.expect(isinstance(body[0], ast.If) and isinstance(body[0].body[0], ast.Raise), 'kn:order-check-first')
    rz = tr.ev(body[0].test)
    cx.prove(rz == (z3.ToReal(z3.ToInt(nu)) != nu), 'kn raises iff the order is not an integer')
    ret = body[1]
    cx.expect(isinstance(ret, ast.Return) and ast.unparse(ret.value) == 'scipy.special.kn(n, x)', 'kn returns scipy.special.kn(n, x)', ast.unparse(ret))


HARNESSES = dict(clifford=h_clifford, grid=h_grid, eps=h_eps, kn=h_kn)


def jobs(tier, seed):
    J = [dict(harness='clifford', params={}), dict(harness='grid', params={}), dict(harness='kn', params={})]
    rng = (-1, 5) if tier == 'quick' else (-3, 8)
    J.append(dict(harness='eps', params=dict(name='epsilon_tensor', nidx=3, lo=rng[0], hi=rng[1])))
    J.append(dict(harness='eps', params=dict(name='epsilon_tensor_rank4', nidx=4, lo=rng[0], hi=rng[1])))
    return J


def apply_canary(name):
    from symx.mutate import mutate
    if name == 'eps4-factor':
        return mutate('pyerrors.dirac', 'epsilon_tensor_rank4', '(o - k) / 12', '(k - o) / 12')
    if name == 'eps3-domain':
        return mutate('pyerrors.dirac', 'epsilon_tensor', 'test_set <= set((0, 1, 2))', 'test_set <= set((0, 1, 2, 3))')
    raise KeyError(name)


CANARIES = [
    dict(name='eps4-factor', what='sign of one factor in epsilon_tensor_rank4', quick=True,
         jobs=lambda tier, seed: [dict(harness='eps', params=dict(name='epsilon_tensor_rank4', nidx=4, lo=-1, hi=5))]),
    dict(name='eps3-domain', what='domain test of epsilon_tensor widened',
         jobs=lambda tier, seed: [dict(harness='eps', params=dict(name='epsilon_tensor', nidx=3, lo=-1, hi=5))]),
]

META = dict(
    explanation='C20: epsilon tensors, the Grid_gamma tag chain and the K_n vjp lambda are translated from the current source (ast2smt) and decided by z3 '
                'with symbolic integer indices / symbolic string tag / symbolic integer order; the Dirac tables are read at run time and checked in exact '
                'Gaussian-rational arithmetic (ground obligations).',
    bounds='index tuples in [-1,5]^3 and [-1,5]^4 (thorough [-3,8]); gamma tag an unbounded symbolic string; K_n order an unbounded integer, x and g real.',
    outside=['the re-exported autograd.scipy.special functions (library code)', 'scipy.special.kn numerics', 'K_n is uninterpreted with K_{-n}=K_n'],
    stubs=['ast2smt translation of epsilon_tensor, epsilon_tensor_rank4, Grid_gamma, kn and its defvjp lambda (validated in concrete replay mode against the real functions)'],
    assumptions=[],
    exhaustive_quick=True, exhaustive_thorough=True,
)
