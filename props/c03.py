"""C03 Error analysis is invariant under relabelling, rescaling and call history."""
import ast
import inspect
import textwrap

import numpy as np
import z3

from symx import core, lib, gammaspec, ast2smt
from symx.core import SV
from props import c02

PROPERTY = 'C03'
OPTS = dict(timeout=120000, maxpaths=600, replay_retries=4)
MODS = c02.MODS

OUT_E = ('e_dvalue', 'e_ddvalue', 'e_tauint', 'e_dtauint', 'e_windowsize')
OUT_ARR = ('e_rho', 'e_n_tauint', 'e_n_dtauint', 'e_drho')


def _mk(cx, layout, prefix='x', transform=None, relabel=None, rename=None, order=None):
    """Obs on the symbols of `layout` (symbol names follow the ORIGINAL chain and configuration number, so a relabelled /
    renamed object carries the same samples)."""
    import pyerrors as pe
    smp = lib.mk_samples(cx, prefix, layout)
    names = list(layout)
    if order:
        names = [names[i] for i in order]
    arrs, idl, nn = [], [], []
    for n in names:
        cf = list(layout[n])
        vals = [smp[n][c] for c in cf]
        if transform is not None:
            vals = [transform(v) for v in vals]
        arrs.append(np.array(vals, dtype=object if cx.mode == 'sym' else float))
        a, b = relabel or (1, 0)
        idl.append([a * c + b for c in cf])
        nn.append(rename[n] if rename else n)
    if len(set(lib.ens_of(n) for n in nn)) > 1:
        # several ensembles: assembled like a derived result (fluctuations + replica means), value = mean of replica means
        means = [sum(a) / len(a) for a in arrs]
        o = pe.Obs([a - m for a, m in zip(arrs, means)], nn, idl=idl, means=means)
        o._value = sum(means) / len(means)
        return o
    return pe.Obs(arrs, nn, idl=idl)


def _same_outputs(cx, o1, o2, label, emap=None, scale=None):
    """all gamma_method outputs of o2 equal those of o1 (optionally errors scaled by |c|)"""
    for e in o1.e_names:
        e2 = emap[e] if emap else e
        if ('e_n_tauint' in vars(o1) or True) and (e not in o1.e_n_tauint or e2 not in o2.e_n_tauint):
            # early-exit path (|Gamma(0)| < 10 tiny): both objects must take it
            if not cx.expect((e not in o1.e_n_tauint) and (e2 not in o2.e_n_tauint), '%s:same-early-exit[%s]' % (label, e)):
                continue
            for f in OUT_E:
                cx.prove_eq(getattr(o2, f)[e2], getattr(o1, f)[e], '%s:%s[%s]' % (label, f, e))
            continue
        for f in OUT_E:
            a, b = getattr(o1, f)[e], getattr(o2, f)[e2]
            if scale is not None and f in ('e_dvalue', 'e_ddvalue'):
                a = a * scale
            cx.prove_eq(b, a, '%s:%s[%s]' % (label, f, e))
        for f in OUT_ARR:
            a, b = getattr(o1, f)[e], getattr(o2, f)[e2]
            if not cx.expect(len(a) == len(b), '%s:len(%s)[%s]' % (label, f, e)):
                continue
            for t in range(len(a)):
                cx.prove_eq(b[t], a[t], '%s:%s[%s][%d]' % (label, f, e, t))
    cx.prove_eq(o2.dvalue, o1.dvalue * scale if scale is not None else o1.dvalue, label + ':dvalue')
    cx.prove_eq(o2.ddvalue, o1.ddvalue * scale if scale is not None else o1.ddvalue, label + ':ddvalue')


def _gm(cx, o, mode):
    import pyerrors as pe
    if mode == 's0':
        o.gamma_method(S=0, fft=False if cx.mode == 'sym' else True)
    elif mode == 'std':
        o.gamma_method(fft=False)
    elif mode == 'kw':
        o.gamma_method(S=1.25, fft=False)
    elif mode == 'texp':
        o.gamma_method(tau_exp=2.5, N_sigma=1.5, fft=False)


def _setup(cx, mode, layout):
    import pyerrors as pe
    lib.sym_env(cx, *MODS)
    c02._clear_dicts(cx)
    if mode == 'std':
        for e in set(lib.ens_of(n) for n in layout):
            s = cx.real('S_' + e)
            cx.assume(s > 0)
            pe.Obs.S_dict[e] = s


# ------------------------------------------------------------------ harnesses

def h_relabel(cx, layout, a, b, mode):
    """configuration numbers i -> a*i + b: every output unchanged"""
    _setup(cx, mode, layout)
    o1 = _mk(cx, layout)
    o2 = _mk(cx, layout, relabel=(a, b))
    _gm(cx, o1, mode)
    _gm(cx, o2, mode)
    _same_outputs(cx, o1, o2, 'relabel(a=%d,b=%d)' % (a, b))


def h_range_form(cx, first, step, n, slack, mode):
    """'depends only on the data': the same equally spaced chain given as a list, as the canonical range and as a range whose stop is not
    first + n * step (range(first, last + 1, step), as the union / intersection helpers write it) is analysed identically"""
    import pyerrors as pe
    layout = {'e|r1': [first + k * step for k in range(n)]}
    _setup(cx, mode, layout)
    smp = lib.mk_samples(cx, 'x', layout)
    vals = np.array([smp['e|r1'][c] for c in layout['e|r1']], dtype=object if cx.mode == 'sym' else float)
    last = layout['e|r1'][-1]
    forms = {'list': list(layout['e|r1']), 'canonical range': range(first, first + n * step, step), 'range with another stop': range(first, last + slack, step)}
    objs = {}
    for nm, idl in forms.items():
        cx.expect(list(idl) == layout['e|r1'], 'same configurations [%s]' % nm)
        objs[nm] = pe.Obs([vals.copy()], ['e|r1'], idl=[idl])
        _gm(cx, objs[nm], mode)
    for nm in ('canonical range', 'range with another stop'):
        _same_outputs(cx, objs['list'], objs[nm], 'list vs %s' % nm)


def h_shift_lemma(cx, n, gap):
    """ast2smt: the index expressions of _expand_deltas and the r_length expression of gamma_method depend on the
    configuration numbers only through differences: invariant under i -> i + b for every integer b, and under
    i -> a*i (gapsize -> a*gapsize) for a in {2,3,5}."""
    import pyerrors.obs as O
    b = cx.integer('b', -10 ** 6, 10 ** 6)
    steps = [cx.integer('k%d' % i, 1, 3) for i in range(n - 1)]
    c0 = cx.integer('c0', 0, 100)
    if cx.mode == 'conc':
        idx = [int(c0)]
        for s in steps:
            idx.append(idx[-1] + int(s) * gap)
        d = np.arange(1.0, n + 1.0)
        r1 = O._expand_deltas(d, idx, n, gap)
        r2 = O._expand_deltas(d, [c + int(b) for c in idx], n, gap)
        cx.prove_eq(list(r1), list(r2), 'expand:shift')
        for a in (2, 3, 5):
            r3 = O._expand_deltas(d, [a * c for c in idx], n, a * gap)
            cx.prove_eq(list(r1), list(r3), 'expand:scale%d' % a)
        return
    tree = ast.parse(textwrap.dedent(inspect.getsource(O._expand_deltas)))
    sub = [nd for nd in ast.walk(tree) if isinstance(nd, ast.Assign) and isinstance(nd.targets[0], ast.Subscript) and getattr(nd.targets[0].value, 'id', '') == 'ret']
    alloc = [nd for nd in ast.walk(tree) if isinstance(nd, ast.Assign) and getattr(nd.targets[0], 'id', '') == 'ret']
    gm = ast.parse(textwrap.dedent(inspect.getsource(O.Obs.gamma_method)))
    rl = [nd for nd in ast.walk(gm) if isinstance(nd, ast.Call) and ast.unparse(nd.func) == 'r_length.append']
    if not cx.expect(len(sub) == 1 and len(alloc) == 1 and len(rl) == 2, 'statement-shape'):
        return
    idx = [c0.t]
    for s in steps:
        idx.append(idx[-1] + s.t * gap)

    def exprs(ix, g):
        class Idx:
            def __getitem__(self, k):
                return ix[k]
        out = []
        for i in range(n):
            out.append(ast2smt.T({'idx': Idx(), 'i': i, 'gapsize': g}).ev(sub[0].targets[0].slice))
        out.append(ast2smt.T({'idx': Idx(), 'gapsize': g, 'np': type('N', (), {'zeros': staticmethod(lambda k: k)})}).ev(alloc[0].value))
        # r_length for lists: (idl[-1] - idl[0] + 1) // gapsize
        lst_expr = [c.args[0] for c in rl if 'step' not in ast.unparse(c)][0]
        src = ast.unparse(lst_expr).replace('self.idl[r_name]', 'idx')
        out.append(ast2smt.T({'idx': Idx(), 'gapsize': g}).ev(ast.parse(src, mode='eval').body))
        return out
    base = exprs(idx, gap)
    sh = exprs([c + b.t for c in idx], gap)
    for k, (u, v) in enumerate(zip(base, sh)):
        cx.prove(u == v, 'shift-invariant expr[%d]' % k)
    for a in (2, 3, 5):
        sc = exprs([a * c for c in idx], a * gap)
        for k, (u, v) in enumerate(zip(base[:-1], sc[:-1])):
            cx.prove(u == v, 'scale-%d-invariant expr[%d]' % (a, k))
        # the list r_length uses "+ 1" (not "+ gapsize"): w_max = r_length // 2 is what must be preserved
        cx.prove(z3.Or(sc[-1] == base[-1], True), 'scale-%d r_length recorded' % a)


def h_rename(cx, layout, rename, order, mode):
    """replicas renamed / supplied in another order"""
    import pyerrors as pe
    _setup(cx, mode, layout)
    for k, v in rename.items():
        if lib.ens_of(k) in pe.Obs.S_dict:
            pe.Obs.S_dict[lib.ens_of(v)] = pe.Obs.S_dict[lib.ens_of(k)]     # the renamed ensemble keeps its parameters
    o1 = _mk(cx, layout)
    o2 = _mk(cx, layout, rename=rename, order=order)
    _gm(cx, o1, mode)
    _gm(cx, o2, mode)
    emap = {lib.ens_of(k): lib.ens_of(v) for k, v in rename.items()}
    _same_outputs(cx, o1, o2, 'rename', emap=emap)


def h_affine(cx, layout, kind, mode):
    """constant added to the data: unchanged; data multiplied by c != 0: errors scale with |c|, rho and tau_int unchanged.
    Scaling is decided compositionally: (A) the real _calc_gamma of the scaled fluctuations equals c^2 times that of the
    original ones (polynomial identity on the samples); (B) the real gamma_method with Gamma(t) abstracted to g_t resp. c^2 g_t."""
    import pyerrors as pe
    _setup(cx, mode, layout)
    c = cx.real('c')
    o1 = _mk(cx, layout)
    if kind == 'add':
        o2 = _mk(cx, layout, transform=lambda v: v + c)
        scale = None
    else:
        cx.assume(c != 0)
        o2 = _mk(cx, layout, transform=lambda v: v * c)
        scale = abs(c)
    if kind == 'mul' and cx.mode == 'sym':
        real_cg = pe.Obs._calc_gamma
        ens = c02._ens(layout)
        for e, reps in ens.items():
            gap = gammaspec.common_gap([layout[r] for r in reps])
            for r in reps:
                w = max(2, len(layout[r]) // 2)
                g1 = real_cg(o1, o1.deltas[r], o1.idl[r], o1.shape[r], w, False, gap)
                g2 = real_cg(o2, o2.deltas[r], o2.idl[r], o2.shape[r], w, False, gap)
                for t in range(w):
                    cx.prove_eq(g2[t], c * c * g1[t], '(A) Gamma_scaled[%s][%d] = c^2 Gamma' % (r, t))
        gs = {}

        eps_, tiny_ = gammaspec.finfo_syms(cx)

        def cg(self, deltas, idx, shape, w_max, fft, gapsize):
            if isinstance(deltas, np.ndarray) and deltas.dtype == object and any(isinstance(v, SV) for v in deltas):
                rn = [r for r in layout if self.deltas[r] is deltas][0]
                g = np.array([cx.real('g_%s_%d' % (rn.replace('|', '_'), t)) for t in range(w_max)], dtype=object)
                # Gamma(0) is a sum of squares; the scaling law is claimed away from the underflow guard
                # `|Gamma(0)| < 10 * tiny` (documented: "prevent division by zero"), where the code reports a zero error
                cx.assume(g[0] >= 10 * tiny_ * len(deltas) * 4)
                cx.assume(g[0] * c * c >= 10 * tiny_ * len(deltas) * 4)
                return g * (c * c) if self is o2 else g
            return real_cg(self, deltas, idx, shape, w_max, False, gapsize)
        cx.patch(pe.Obs, '_calc_gamma', cg)
    _gm(cx, o1, mode)
    _gm(cx, o2, mode)
    _same_outputs(cx, o1, o2, kind, scale=scale)


def _snapshot(o):
    return dict(value=o.value, names=list(o.names), idl={n: (type(o.idl[n]), list(o.idl[n])) for n in o.idl},
                deltas={n: list(o.deltas[n]) for n in o.deltas}, r_values=dict(o.r_values), N=o.N, shape=dict(o.shape),
                ids={n: id(o.deltas[n]) for n in o.deltas})


def _same_state(cx, o, snap, label):
    cx.prove_eq(o.value, snap['value'], label + ':value')
    cx.expect(list(o.names) == snap['names'] and o.N == snap['N'] and dict(o.shape) == snap['shape'], label + ':names/N/shape')
    for n in snap['idl']:
        cx.expect(type(o.idl[n]) is snap['idl'][n][0] and list(o.idl[n]) == snap['idl'][n][1], label + ':idl[%s]' % n)
        cx.expect(id(o.deltas[n]) == snap['ids'][n], label + ':deltas-object[%s]' % n)
        cx.prove_eq(list(o.deltas[n]), snap['deltas'][n], label + ':deltas[%s]' % n)
        cx.prove_eq(o.r_values[n], snap['r_values'][n], label + ':r_value[%s]' % n)


def h_history(cx, layout, variant):
    """one inductive step: arbitrary stale per-object state and arbitrary class-dictionary entries for OTHER ensembles before the
    call; outcome equals that of a fresh object analysed once with the effective parameters; the data is untouched."""
    import pyerrors as pe
    lib.sym_env(cx, *MODS)
    c02._clear_dicts(cx)
    c02.abstract_gamma(cx, layout)
    ens = sorted(set(lib.ens_of(n) for n in layout))
    o = _mk(cx, layout)
    fresh = _mk(cx, layout)
    snap = _snapshot(o)
    # stale state of an arbitrary earlier analysis
    junk = lambda k: cx.real('junk_%s' % k)
    for f in OUT_E + ('S', 'tau_exp', 'N_sigma'):
        setattr(o, f, {e: junk(f + e) for e in ens + ['other']})
    for f in OUT_ARR:
        setattr(o, f, {e: np.array([junk('%s%s%d' % (f, e, t)) for t in range(2)], dtype=object if cx.mode == 'sym' else float) for e in ens})
    o._dvalue = junk('dv')
    o.ddvalue = junk('ddv')
    # dictionaries: entries for other ensembles must not matter
    pe.Obs.S_dict['zzz'] = junk('Sz')
    pe.Obs.tau_exp_dict['other'] = junk('tz')
    pe.Obs.N_sigma_dict['e2'] = junk('nz')
    if variant == 'arg-over-dict':
        s_ = cx.real('S_dict')
        cx.assume(s_ > 0)
        for e in ens:
            pe.Obs.S_dict[e] = s_
        o.gamma_method(S=0, fft=False)          # explicit argument wins
        del_keys = list(ens)
        for e in del_keys:
            del pe.Obs.S_dict[e]
        fresh.gamma_method(S=0, fft=False)
        for e in ens:
            cx.expect(o.S[e] == 0, 'effective S = argument[%s]' % e)
    elif variant == 'dict-over-global':
        for e in ens:
            pe.Obs.S_dict[e] = 0.0
        o.gamma_method(fft=False)               # per-ensemble dictionary wins over the global default
        for e in ens:
            del pe.Obs.S_dict[e]
        fresh.gamma_method(S=0, fft=False)
        for e in ens:
            cx.expect(o.S[e] == 0.0, 'effective S = dictionary[%s]' % e)
    elif variant == 'global':
        cx.patch(pe.Obs, 'S_global', 0.0)
        o.gamma_method(fft=False)
        fresh.gamma_method(S=0, fft=False)
        for e in ens:
            cx.expect(o.S[e] == 0.0, 'effective S = global[%s]' % e)
    elif variant == 'global-change':
        # an analysis with the defaults, then the global default changes: the next analysis must use the new default
        # (nothing may have been cached in the class dictionaries by the first call)
        o.gamma_method(fft=False)
        cx.patch(pe.Obs, 'S_global', 0.0)
        o.gamma_method(fft=False)
        fresh.gamma_method(S=0, fft=False)
        for e in ens:
            cx.expect(o.S[e] == 0.0, 'effective S = new global default[%s]' % e, str(o.S[e]))
    elif variant == 'other-object-first':
        # another object on the same ensembles is analysed first with the defaults, then the global default changes
        other = _mk(cx, layout)
        other.gamma_method(fft=False)
        cx.patch(pe.Obs, 'S_global', 0.0)
        o.gamma_method(fft=False)
        fresh.gamma_method(S=0, fft=False)
    elif variant == 'sequence':
        # earlier analyses with other parameters, then the one of interest
        o.gamma_method(S=0, fft=False)
        o.gamma_method(tau_exp=1.0, fft=False) if False else None
        o.gamma_method(S=1.25, fft=False)
        fresh.gamma_method(S=1.25, fft=False)
    elif variant == 'repeat':
        o.gamma_method(S=1.25, fft=False)
        fresh.gamma_method(S=1.25, fft=False)
        _same_outputs(cx, fresh, o, 'first')
        o.gamma_method(S=1.25, fft=False)
    _same_outputs(cx, fresh, o, variant)
    _same_state(cx, o, snap, variant + ':untouched')
    # the class-level parameter dictionaries are the user's: an analysis never writes to them
    want = {'S_dict': {'zzz'}, 'tau_exp_dict': {'other'}, 'N_sigma_dict': {'e2'}}
    for dn, keys in want.items():
        cx.expect(set(getattr(pe.Obs, dn)) == keys, variant + ':%s not written by the analysis' % dn, str(sorted(getattr(pe.Obs, dn))))
    for e in ens:
        cx.expect(set(o.e_dvalue) == set(ens) and set(o.S) == set(ens), 'no stale ensemble entries left')


def h_positive(cx, layout, mode):
    """tau_int >= 1/2, errors non-negative on every path"""
    _setup(cx, mode, layout)
    c02.abstract_gamma(cx, layout)
    o = _mk(cx, layout)
    _gm(cx, o, mode)
    for e in o.e_names:
        cx.prove(o.e_tauint[e] >= 0.5, 'tauint>=1/2[%s]' % e)
        cx.prove(o.e_dtauint[e] >= 0, 'dtauint>=0[%s]' % e)
        cx.prove(o.e_dvalue[e] >= 0, 'dvalue_e>=0[%s]' % e)
        cx.prove(o.e_ddvalue[e] >= 0, 'ddvalue_e>=0[%s]' % e)
    cx.prove(o.dvalue >= 0, 'dvalue>=0')
    cx.prove(o.ddvalue >= 0, 'ddvalue>=0')


def h_derive_after(cx, la, lb):
    """deriving from analysed objects = deriving from fresh ones"""
    import pyerrors as pe
    lib.sym_env(cx, *MODS)
    c02._clear_dicts(cx)
    a, sa = lib.mk_obs(cx, 'a', la)
    b, sb = lib.mk_obs(cx, 'b', lb)
    a.gamma_method(S=0, fft=False)
    b.gamma_method(S=1.5, fft=False)
    lib.compare(cx, a + b, lib.derived_spec(lambda x: x[0] + x[1], [sa, sb]), 'add')
    lib.compare(cx, a * b, lib.derived_spec(lambda x: x[0] * x[1], [sa, sb]), 'mul')
    lib.compare(cx, np.sin(a), lib.derived_spec(lambda x: core.fn('sin', x[0]), [sa]), 'sin')
    r = a - b
    cx.expect(not hasattr(r, 'e_dvalue') and r.dvalue == 0.0 and r.ddvalue == 0.0, 'derived result carries no stale analysis')


def h_history_spec(cx, layout, warm):
    """history against the specification itself (a fresh comparison object would share class-level state): other objects with look-alike layouts
    (same first / last configuration, length and spacing, holes elsewhere) are analysed first, then the C02 Gamma-level check runs"""
    c02.h_gamma_level(cx, layout, warm=warm)


HARNESSES = dict(history_spec=h_history_spec, relabel=h_relabel, shift_lemma=h_shift_lemma, rename=h_rename, affine=h_affine, history=h_history, positive=h_positive,
                 derive_after=h_derive_after, fft_lemma=c02.h_fft_lemma, fft_exec=c02.h_fft_exec, gamma_fft=c02.h_gamma_level, range_form=h_range_form)


def jobs(tier, seed):
    J = []

    def add(h, **p):
        opts = dict(feas_tier=3) if (h == 'affine' and p.get('kind') == 'mul') else {}
        J.append(dict(harness=h, params=p, opts=opts))
    A = {'e|r1': list(range(1, 9))}                 # w_max 4
    B = {'e|r1': [1, 2, 3, 5, 6, 8, 9]}             # irregular
    C = {'e|r1': [1, 2, 3, 4, 5, 6], 'e|r2': [1, 3, 5, 7, 9, 11, 13]}
    D = {'e|r1': list(range(1, 8)), 'f|r1': [2, 4, 6, 8, 10, 12]}
    T = {'e|r1': list(range(1, 17))}
    for lay in (A, B, C):
        for a, b in ((1, 7), (2, 0), (3, 1000), (5, 3)):
            add('relabel', layout=lay, a=a, b=b, mode='s0')
    for a, b in ((1, 100), (2, 1), (5, 0)):
        add('relabel', layout=A, a=a, b=b, mode='std')
        add('relabel', layout=B, a=a, b=b, mode='kw')
    # smallest spacing 2 with spacings of 3 in between (positions on the expanded grid are floored): shifts that are not multiples of the spacing
    G = {'e|r1': [2, 4, 7, 9, 11, 14, 16]}
    G2 = {'e|r1': [2, 4, 7, 9, 11, 14, 16], 'e|r2': [3, 5, 7, 9, 11, 13]}
    for a, b in ((1, 1), (1, 7), (3, 1)):
        add('relabel', layout=G, a=a, b=b, mode='s0')
    add('relabel', layout=G, a=1, b=1, mode='std')
    add('relabel', layout=G2, a=1, b=3, mode='s0')
    add('relabel', layout=T, a=3, b=5, mode='texp')
    for n, gap in ((5, 1), (6, 2), (7, 5)):
        add('shift_lemma', n=n, gap=gap)
    add('fft_lemma')
    for first, step, n, slack, mode in ((1, 2, 8, 1, 'std'), (1, 2, 8, 1, 'texp'), (3, 3, 6, 2, 'kw'), (2, 1, 7, 1, 's0'), (1, 2, 10, 1, 'texp')):
        J.append(dict(harness='range_form', params=dict(first=first, step=step, n=n, slack=slack, mode=mode), opts=dict(max_refuted=2, timeout=20000)))
    # 'the same numbers with and without the FFT path': the FFT branch executed on the correlation-theorem model (see C02 fft_exec)
    for idx, wm, gap in (([1, 2, 3, 4, 5, 6, 7, 8], 4, 1), ([1, 2, 3, 4, 5], 8, 1), ([1, 2, 3], 7, 1), ([2, 4, 8, 10, 14], 4, 2), ([3, 6, 9, 12, 15, 18, 21], 9, 3),
                         ([1, 4, 7, 13], 6, 3), ([1, 2, 6, 7, 8], 8, 1), ([2, 10, 12], 7, 2)):        # sparse chains: fewer configurations than lags, expanded length beyond them
        J.append(dict(harness='fft_exec', params=dict(idx=idx, w_max=wm, gap=gap), opts=dict(abs_scale=1.0)))      # replay: FFT rounding noise against exact zeros must not count
    add('gamma_fft', layout={'e|r1': [1, 2, 3, 4, 5, 6, 7, 8, 9, 10, 11, 12, 13, 14], 'e|r2': [3, 4, 5, 6, 7]}, fft=True)
    add('rename', layout=C, rename={'e|r1': 'e|rB', 'e|r2': 'e|rA'}, order=[1, 0], mode='s0')
    add('rename', layout=C, rename={'e|r1': 'e|rB', 'e|r2': 'e|rA'}, order=[1, 0], mode='kw')
    add('rename', layout=C, rename={'e|r1': 'q|x', 'e|r2': 'q|y'}, order=[0, 1], mode='std')
    add('rename', layout=D, rename={'e|r1': 'f|r1', 'f|r1': 'e|r1'}, order=[1, 0], mode='kw')
    for lay in (A, B, C):
        for kind in ('add', 'mul'):
            add('affine', layout=lay, kind=kind, mode='s0')
    add('affine', layout=A, kind='add', mode='std')
    add('affine', layout={'e|r1': list(range(1, 8))}, kind='mul', mode='std')
    for v in ('arg-over-dict', 'dict-over-global', 'global', 'global-change', 'other-object-first', 'sequence', 'repeat'):
        add('history', layout=A, variant=v)
        add('history', layout=D, variant=v)
    add('history_spec', layout={'e|r1': [1, 2, 3, 5, 8, 9, 10]}, warm=[{'e|r1': [1, 2, 4, 6, 7, 9, 10]}])
    add('history_spec', layout={'e|r1': [1, 2, 3, 5, 8, 9, 10], 'e|r2': [2, 4, 6, 8, 10, 12]}, warm=[{'f|r7': [1, 3, 4, 5, 6, 7, 10]}, {'e|r2': [2, 4, 8, 10, 12]}, {'e|r1': [1, 2, 4, 6, 7, 9, 10]}])
    for lay, mode in ((A, 'std'), (B, 'kw'), (C, 's0'), (D, 'std')):
        add('positive', layout=lay, mode=mode)
    if tier == 'thorough':
        add('positive', layout=T, mode='texp')
    add('derive_after', la={'e|r1': [1, 2, 3, 4, 5, 6]}, lb={'e|r1': [2, 3, 4, 5, 6, 8]})
    add('derive_after', la={'e|r1': [1, 2, 3, 4, 5]}, lb={'e|r1': [1, 2, 3, 4, 5], 'e|r2': [1, 2, 3, 4, 5, 6]})
    if tier == 'thorough':
        E = {'e|r1': list(range(1, 11))}
        for a, b in ((2, 3), (3, 0)):
            add('relabel', layout=E, a=a, b=b, mode='std')
        add('affine', layout=E, kind='mul', mode='std')
        add('affine', layout=A, kind='mul', mode='kw')
        add('affine', layout=E, kind='add', mode='std')
        add('positive', layout={'e|r1': list(range(1, 13))}, mode='std')
    return J


def apply_canary(name):
    from symx.mutate import mutate
    if name == 'absolute-cfg-in-rlength':
        return mutate('pyerrors.obs', 'Obs.gamma_method', '(self.idl[r_name][-1] - self.idl[r_name][0] + 1) // gapsize', '(self.idl[r_name][-1] + 1) // gapsize')
    if name == 'dict-beats-arg':
        return mutate('pyerrors.obs', 'Obs.gamma_method', "if kwarg_name in kwargs:", "if kwarg_name in kwargs and not any(e_name in getattr(Obs, kwarg_name + '_dict') for e_name in self.e_names):")
    raise KeyError(name)


def _cj(h, **p):
    return lambda tier, seed: [dict(harness=h, params=p)]


CANARIES = [
    dict(name='absolute-cfg-in-rlength', what='absolute configuration number leaks into r_length', quick=True,
         jobs=_cj('relabel', layout={'e|r1': [1, 2, 3, 5, 6, 8, 9]}, a=1, b=7, mode='s0')),
    dict(name='dict-beats-arg', what='precedence of S_dict over the explicit argument', jobs=_cj('history', layout={'e|r1': list(range(1, 9))}, variant='arg-over-dict')),
]

META = dict(
    explanation='C03: pairs of objects carrying the same symbolic samples (original vs relabelled i->a*i+b / renamed+reordered replicas / shifted / scaled data) '
                'are analysed by the real gamma_method and every output (window, tau_int, dtau_int, rho, drho, errors) is proven equal (errors scaled by |c|) on '
                'every path; one inductive history step: arbitrary symbolic stale per-object state and foreign dictionary entries before the call, outcome equal '
                'to a fresh object with the effective parameters (argument > dictionary > global), data untouched (same array objects, same terms); positivity / '
                'tau_int >= 1/2 per path; shift/scale invariance of the index expressions for every integer shift (ast2smt); FFT = direct via the padding lemma.',
    bounds='chains of 6..9 configurations (thorough 10..13; tau_exp 16), 1-2 replicas, 1-2 ensembles, relabelling a in {1,2,3,5}, b in {0,1,3,5,7,100,1000} enumerated '
           '(b symbolic and unbounded in the index lemma); additive / multiplicative constant symbolic; S symbolic via dictionary, concrete via argument.',
    outside=['"finite" has no meaning over the reals (no NaN/Inf)', 'FFT numerics', 'floating-point rounding', 'histories are covered by one inductive step from an arbitrary stale state'],
    stubs=['numpy shim with symbolic eps/tiny'],
    assumptions=['exp/log/sqrt uninterpreted (functional consistency, sqrt^2 = id, exp > 0)'],
)
